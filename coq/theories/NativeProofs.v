(* NativeProofs.v — C12 (import of Go dynamic values: parseVal / NewListFrom / NewObjectFrom) and
   C13 (export: NativeSlice / NativeDict / Slice / Dict) theorems over the model of Native.v. *)
From Anytype Require Import Base FloatBits Value Native.
From Coq Require Import ZifyBool.
Local Open Scope Z_scope.
Ltac Zify.zify_post_hook ::= Z.div_mod_to_equations.

(* ---------- nested induction principle for gov ---------- *)
Definition gov_leaf (g : gov) : Prop :=
  match g with GSliceAny _ | GMapAny _ => False | _ => True end.

Section GovInd.
  Variable P : gov -> Prop.
  Hypothesis Hleaf : forall g, gov_leaf g -> P g.
  Hypothesis Hslice : forall l, Forall P l -> P (GSliceAny l).
  Hypothesis Hmap : forall kvs, Forall (fun kv => P (snd kv)) kvs -> P (GMapAny kvs).
  Fixpoint gov_ind' (g : gov) : P g :=
    match g as g0 return P g0 with
    | GSliceAny l => Hslice l ((fix go (l : list gov) : Forall P l :=
                                 match l with [] => Forall_nil _ | x :: t => Forall_cons _ (gov_ind' x) (go t) end) l)
    | GMapAny kvs => Hmap kvs ((fix go (l : list (bytes * gov)) : Forall (fun kv => P (snd kv)) l :=
                                 match l with [] => Forall_nil _ | x :: t => Forall_cons _ (gov_ind' (snd x)) (go t) end) kvs)
    | GNil => Hleaf GNil I
    | GBool b => Hleaf (GBool b) I
    | GStr s => Hleaf (GStr s) I
    | GIntW w z => Hleaf (GIntW w z) I
    | GF64 b => Hleaf (GF64 b) I
    | GF32 b => Hleaf (GF32 b) I
    | GObjC c => Hleaf (GObjC c) I
    | GListC c => Hleaf (GListC c) I
    | GSliceObj l => Hleaf (GSliceObj l) I
    | GSliceList l => Hleaf (GSliceList l) I
    | GSliceStr l => Hleaf (GSliceStr l) I
    | GSliceBool l => Hleaf (GSliceBool l) I
    | GSliceInt l => Hleaf (GSliceInt l) I
    | GSliceF64 l => Hleaf (GSliceF64 l) I
    | GMapObj l => Hleaf (GMapObj l) I
    | GMapList l => Hleaf (GMapList l) I
    | GMapStr l => Hleaf (GMapStr l) I
    | GMapBool l => Hleaf (GMapBool l) I
    | GMapInt l => Hleaf (GMapInt l) I
    | GMapF64 l => Hleaf (GMapF64 l) I
    | GOther => Hleaf GOther I
    end.
End GovInd.

(* ---------- named loops for the nested fixes of norm ---------- *)
Fixpoint norm_list (l : list gov) : res (list val) :=
  match l with
  | [] => Ok []
  | x :: t => match norm x with
              | Panic => Panic
              | Ok v => match norm_list t with Ok vs => Ok (v :: vs) | Panic => Panic end
              end
  end.
Fixpoint norm_kvs (l : list (bytes * gov)) : res (list (bytes * val)) :=
  match l with
  | [] => Ok []
  | (k, x) :: t => match norm x with
                   | Panic => Panic
                   | Ok v => match norm_kvs t with Ok vs => Ok ((k, v) :: vs) | Panic => Panic end
                   end
  end.

Lemma norm_slice_unfold l :
  norm (GSliceAny l) = match norm_list l with Ok vs => Ok (VList vs) | Panic => Panic end.
Proof.
  cbn [norm].
  match goal with |- match ?f l with _ => _ end = _ => assert (E : f l = norm_list l) end.
  { induction l as [|x t IH]; [reflexivity|].
    cbn [norm_list]. destruct (norm x) as [v|]; [|reflexivity]. rewrite IH. reflexivity. }
  rewrite E. reflexivity.
Qed.

Lemma norm_map_unfold kvs :
  norm (GMapAny kvs) = match norm_kvs kvs with Ok vs => Ok (VObj vs) | Panic => Panic end.
Proof.
  cbn [norm].
  match goal with |- match ?f kvs with _ => _ end = _ => assert (E : f kvs = norm_kvs kvs) end.
  { induction kvs as [|[k x] t IH]; [reflexivity|].
    cbn [norm_kvs]. destruct (norm x) as [v|]; [|reflexivity]. rewrite IH. reflexivity. }
  rewrite E. reflexivity.
Qed.

Lemma norm_list_cons x t :
  norm_list (x :: t) = match norm x with
                       | Panic => Panic
                       | Ok v => match norm_list t with Ok vs => Ok (v :: vs) | Panic => Panic end
                       end.
Proof. reflexivity. Qed.
Lemma norm_kvs_cons k x t :
  norm_kvs ((k, x) :: t) = match norm x with
                           | Panic => Panic
                           | Ok v => match norm_kvs t with Ok vs => Ok ((k, v) :: vs) | Panic => Panic end
                           end.
Proof. reflexivity. Qed.

(* ---------- the loops, characterised ---------- *)
Lemma norm_list_ok l vs : norm_list l = Ok vs <-> Forall2 (fun g v => norm g = Ok v) l vs.
Proof.
  revert vs. induction l as [|x t IH]; intros vs.
  - cbn [norm_list]. split.
    + intros H. injection H as <-. constructor.
    + intros H. inversion H. reflexivity.
  - rewrite norm_list_cons. split.
    + intros H. destruct (norm x) as [v|] eqn:Ex; [|discriminate].
      destruct (norm_list t) as [ws|] eqn:Et; [|discriminate].
      injection H as <-. constructor; [exact Ex|]. apply IH. reflexivity.
    + intros H. inversion H as [|x0 v t0 ws Hx Ht]. subst.
      rewrite Hx. apply IH in Ht. rewrite Ht. reflexivity.
Qed.

Lemma norm_list_panic l : norm_list l = Panic <-> exists g, In g l /\ norm g = Panic.
Proof.
  induction l as [|x t IH].
  - cbn [norm_list]. split; [discriminate|]. intros [g [[] _]].
  - rewrite norm_list_cons. split.
    + intros H. destruct (norm x) as [v|] eqn:Ex.
      * destruct (norm_list t) as [ws|] eqn:Et; [discriminate|].
        destruct (proj1 IH eq_refl) as [g [Hin Hg]]. exists g. split; [right; exact Hin | exact Hg].
      * exists x. split; [left; reflexivity | exact Ex].
    + intros [g [[Hg|Hin] Hp]].
      * subst g. rewrite Hp. reflexivity.
      * destruct (norm x) as [v|]; [|reflexivity].
        assert (Ht : norm_list t = Panic) by (apply IH; exists g; split; assumption).
        rewrite Ht. reflexivity.
Qed.

Lemma norm_kvs_ok kvs m :
  norm_kvs kvs = Ok m <-> Forall2 (fun p q => fst p = fst q /\ norm (snd p) = Ok (snd q)) kvs m.
Proof.
  revert m. induction kvs as [|[k x] t IH]; intros m.
  - cbn [norm_kvs]. split.
    + intros H. injection H as <-. constructor.
    + intros H. inversion H. reflexivity.
  - rewrite norm_kvs_cons. split.
    + intros H. destruct (norm x) as [v|] eqn:Ex; [|discriminate].
      destruct (norm_kvs t) as [ws|] eqn:Et; [|discriminate].
      injection H as <-. constructor; [split; [reflexivity | exact Ex]|]. apply IH. reflexivity.
    + intros H. inversion H as [|p q t0 ws [Hk Hx] Ht]. subst. destruct q as [k' v]. cbn [fst snd] in *. subst k'.
      rewrite Hx. apply IH in Ht. rewrite Ht. reflexivity.
Qed.

Lemma norm_kvs_panic kvs : norm_kvs kvs = Panic <-> exists k g, In (k, g) kvs /\ norm g = Panic.
Proof.
  induction kvs as [|[k x] t IH].
  - cbn [norm_kvs]. split; [discriminate|]. intros [k [g [[] _]]].
  - rewrite norm_kvs_cons. split.
    + intros H. destruct (norm x) as [v|] eqn:Ex.
      * destruct (norm_kvs t) as [ws|] eqn:Et; [discriminate|].
        destruct (proj1 IH eq_refl) as [k' [g [Hin Hg]]]. exists k', g. split; [right; exact Hin | exact Hg].
      * exists k, x. split; [left; reflexivity | exact Ex].
    + intros [k' [g [[Hg|Hin] Hp]]].
      * injection Hg as -> ->. rewrite Hp. reflexivity.
      * destruct (norm x) as [v|]; [|reflexivity].
        assert (Ht : norm_kvs t = Panic) by (apply IH; exists k', g; split; assumption).
        rewrite Ht. reflexivity.
Qed.

(* ================= C12 ================= *)

(* (N1) the stored kind is determined by the Go dynamic type *)
Theorem norm_kind : forall g v, norm g = Ok v ->
  kind_of v = match g with
              | GNil => KNil | GBool _ => KBool | GStr _ => KString | GIntW _ _ => KInt | GF64 _ | GF32 _ => KFloat
              | GObjC _ | GMapAny _ | GMapObj _ | GMapList _ | GMapStr _ | GMapBool _ | GMapInt _ | GMapF64 _ => KObject
              | GListC _ | GSliceAny _ | GSliceObj _ | GSliceList _ | GSliceStr _ | GSliceBool _ | GSliceInt _ | GSliceF64 _ => KList
              | GOther => KUndefined end.
Proof.
  intros g v H. destruct g;
    try (cbn [norm] in H; first [discriminate H | injection H as <-; reflexivity]).
  - rewrite norm_slice_unfold in H. destruct (norm_list l) as [vs|]; [|discriminate]. injection H as <-. reflexivity.
  - rewrite norm_map_unfold in H. destruct (norm_kvs kvs) as [vs|]; [|discriminate]. injection H as <-. reflexivity.
Qed.

(* (N2) integers *)
Theorem norm_int_value : forall w z, intw_ok w z = true -> in_int64 z = true -> norm (GIntW w z) = Ok (VInt z).
Proof.
  intros w z _ Hz. cbn [norm]. destruct w; try reflexivity; rewrite (wrap64_id z Hz); reflexivity.
Qed.

Theorem norm_uint_wraps : forall z,
  norm (GIntW WUint64 z) = Ok (VInt (wrap64 z)) /\ norm (GIntW WUint z) = Ok (VInt (wrap64 z)).
Proof. intros z. split; reflexivity. Qed.

Theorem norm_int_range : forall w z v, intw_ok w z = true -> norm (GIntW w z) = Ok v ->
  exists z', v = VInt z' /\ in_int64 z' = true.
Proof.
  intros w z v Hok H. cbn [norm] in H. injection H as <-. eexists. split; [reflexivity|].
  destruct w; try apply wrap64_range;
    unfold intw_ok, intw_range, fst, snd, two63, two64 in Hok;
    unfold in_int64, min_int, max_int, two63; lia.
Qed.

(* (N3) unsupported values are rejected, also anywhere inside []any / map[string]any *)
Theorem norm_rejects_other : norm GOther = Panic.
Proof. reflexivity. Qed.

Theorem norm_slice_any : forall l vs,
  norm (GSliceAny l) = Ok (VList vs) <-> Forall2 (fun g v => norm g = Ok v) l vs.
Proof.
  intros l vs. rewrite norm_slice_unfold, <- norm_list_ok.
  destruct (norm_list l) as [ws|]; split; intros H; try discriminate.
  - injection H as <-. reflexivity.
  - injection H as <-. reflexivity.
Qed.

Theorem norm_slice_any_panics : forall l, norm (GSliceAny l) = Panic <-> exists g, In g l /\ norm g = Panic.
Proof.
  intros l. rewrite norm_slice_unfold, <- norm_list_panic.
  destruct (norm_list l) as [ws|]; split; intros H; try discriminate; reflexivity.
Qed.

Theorem norm_map_any : forall kvs m,
  norm (GMapAny kvs) = Ok (VObj m) <-> Forall2 (fun p q => fst p = fst q /\ norm (snd p) = Ok (snd q)) kvs m.
Proof.
  intros kvs m. rewrite norm_map_unfold, <- norm_kvs_ok.
  destruct (norm_kvs kvs) as [ws|]; split; intros H; try discriminate.
  - injection H as <-. reflexivity.
  - injection H as <-. reflexivity.
Qed.

Theorem norm_map_any_panics : forall kvs,
  norm (GMapAny kvs) = Panic <-> exists k g, In (k, g) kvs /\ norm g = Panic.
Proof.
  intros kvs. rewrite norm_map_unfold, <- norm_kvs_panic.
  destruct (norm_kvs kvs) as [ws|]; split; intros H; try discriminate; reflexivity.
Qed.

(* a []any / map[string]any always yields a List / Object when accepted *)
Lemma norm_slice_any_shape l v : norm (GSliceAny l) = Ok v -> exists vs, v = VList vs /\ norm_list l = Ok vs.
Proof. rewrite norm_slice_unfold. destruct (norm_list l) as [vs|]; [|discriminate]. intros H. injection H as <-. eauto. Qed.
Lemma norm_map_any_shape kvs v : norm (GMapAny kvs) = Ok v -> exists m, v = VObj m /\ norm_kvs kvs = Ok m.
Proof. rewrite norm_map_unfold. destruct (norm_kvs kvs) as [vs|]; [|discriminate]. intros H. injection H as <-. eauto. Qed.

(* (N5) NewListFrom / NewObjectFrom accept only slice / map flavours *)
Theorem new_from_flavours : forall g, (exists v, new_list_from g = Ok v) ->
  match g with GSliceAny _ | GSliceObj _ | GSliceList _ | GSliceStr _ | GSliceBool _ | GSliceInt _ | GSliceF64 _ => True | _ => False end.
Proof. intros g [v H]. destruct g; try exact I; discriminate H. Qed.

Theorem new_object_from_flavours : forall g, (exists v, new_object_from g = Ok v) ->
  match g with GMapAny _ | GMapObj _ | GMapList _ | GMapStr _ | GMapBool _ | GMapInt _ | GMapF64 _ => True | _ => False end.
Proof. intros g [v H]. destruct g; try exact I; discriminate H. Qed.

Theorem new_list_from_kind : forall g v, new_list_from g = Ok v -> kind_of v = KList.
Proof. intros g v H. destruct g; try discriminate H; unfold new_list_from in H; apply norm_kind in H; exact H. Qed.
Theorem new_object_from_kind : forall g v, new_object_from g = Ok v -> kind_of v = KObject.
Proof. intros g v H. destruct g; try discriminate H; unfold new_object_from in H; apply norm_kind in H; exact H. Qed.

(* (N4) float32 -> float64 is exact: rational value of a finite pattern as a dyadic pair (signed mantissa, exponent) *)
Definition dy64 (b : Z) : Z * Z :=
  let s := if two63 <=? b then -1 else 1 in let e := f_exp b in let m := f_man b in
  if e =? 0 then (s * m, -1074) else (s * (m + two52), e - 1075).
Definition dy32 (b : Z) : Z * Z :=
  let s := if 2147483648 <=? b then -1 else 1 in let e := (b / 8388608) mod 256 in let m := b mod 8388608 in
  if e =? 0 then (s * m, -149) else (s * (m + 8388608), e - 150).

(* decomposition of a float32 pattern *)
Lemma f32_fields b : 0 <= b < 4294967296 ->
  let s := b / 2147483648 in let e := (b / 8388608) mod 256 in let m := b mod 8388608 in
  0 <= s <= 1 /\ 0 <= e <= 255 /\ 0 <= m < 8388608 /\ (2147483648 <=? b) = (s =? 1).
Proof. intros H. cbv zeta. lia. Qed.

(* a float64 pattern assembled from fields *)
Lemma f64_assemble s e m : 0 <= s <= 1 -> 0 <= e <= 2047 -> 0 <= m < two52 ->
  let r := s * two63 + e * two52 + m in
  0 <= r < two64 /\ f_exp r = e /\ f_man r = m /\ (two63 <=? r) = (s =? 1).
Proof. unfold f_exp, f_man, two52, two63, two64. intros Hs He Hm. cbv zeta. lia. Qed.

Lemma pow2_29 : 2 ^ 29 = 536870912. Proof. reflexivity. Qed.

Theorem f32_to_f64_exact : forall b, 0 <= b < 4294967296 -> (b / 8388608) mod 256 <> 255 ->
  let '(m32, e32) := dy32 b in let '(m64, e64) := dy64 (f32_to_f64 b) in
  m32 * 2 ^ (e32 + 1074) = m64 * 2 ^ (e64 + 1074)  /\  0 <= f32_to_f64 b < two64 /\ is_finite (f32_to_f64 b) = true.
Proof.
  intros b Hb He.
  pose proof (f32_fields b Hb) as F. cbv zeta in F.
  unfold f32_to_f64, dy32, two23. cbv zeta.
  set (s := b / 2147483648) in *. set (e := (b / 8388608) mod 256) in *. set (m := b mod 8388608) in *.
  destruct F as (Hs & He' & Hm & Hsg). rewrite Hsg. clearbody s e m. clear Hsg Hb b.
  replace (e =? 255) with false by lia.
  destruct (e =? 0) eqn:E0.
  - destruct (m =? 0) eqn:M0.
    + (* zero *)
      replace (s * two63) with (s * two63 + 0 * two52 + 0) by ring.
      destruct (f64_assemble s 0 0) as (R1 & R2 & R3 & R4); [lia | lia | unfold two52; lia |]. cbv zeta in R1, R2, R3, R4.
      unfold dy64, is_finite. cbv zeta. rewrite R2, R3, R4.
      change (0 =? 0) with true. change (0 =? 2047) with false. cbv beta iota.
      split; [|split; [exact R1 | reflexivity]].
      replace m with 0 by lia. ring.
    + (* subnormal float32 -> normal float64 *)
      set (l := Z.log2 m).
      pose proof (Z.log2_spec m ltac:(lia)) as Hl. fold l in Hl. rewrite <- Z.add_1_r in Hl.
      assert (Hl0 : 0 <= l) by apply Z.log2_nonneg.
      assert (Hl23 : l < 23) by (apply Z.log2_lt_pow2; [lia | change (2 ^ 23) with 8388608; lia]).
      set (p := 2 ^ (52 - l)).
      assert (Hp : 0 < p) by (apply Z.pow_pos_nonneg; lia).
      assert (P1 : 2 ^ l * p = two52).
      { unfold p. rewrite <- Z.pow_add_r by lia. replace (l + (52 - l)) with 52 by ring. reflexivity. }
      assert (P2 : 2 ^ (l + 1) * p = 2 * two52).
      { unfold p. rewrite <- Z.pow_add_r by lia. replace (l + 1 + (52 - l)) with 53 by ring. reflexivity. }
      assert (Q1 : 2 ^ l * p <= m * p) by (apply Z.mul_le_mono_nonneg_r; lia).
      assert (Q2 : m * p < 2 ^ (l + 1) * p) by (apply Z.mul_lt_mono_pos_r; lia).
      rewrite P1 in Q1. rewrite P2 in Q2.
      set (q := m * p) in *.
      replace (s * two63 + (l - 149 + 1023) * two52 + (q - two52))
        with (s * two63 + (l + 874) * two52 + (q - two52)) by ring.
      destruct (f64_assemble s (l + 874) (q - two52)) as (R1 & R2 & R3 & R4); [lia | lia | unfold two52 in *; lia |].
      cbv zeta in R1, R2, R3, R4.
      unfold dy64, is_finite. cbv zeta. rewrite R2, R3, R4.
      replace (l + 874 =? 0) with false by lia. replace (l + 874 =? 2047) with false by lia. cbv beta iota.
      split; [|split; [exact R1 | reflexivity]].
      replace (-149 + 1074) with ((52 - l) + (l + 873)) by ring.
      replace (l + 874 - 1075 + 1074) with (l + 873) by ring.
      rewrite Z.pow_add_r by lia. fold p. unfold q. ring.
  - (* normal *)
    replace (s * two63 + (e - 127 + 1023) * two52 + m * 536870912)
      with (s * two63 + (e + 896) * two52 + m * 536870912) by ring.
    destruct (f64_assemble s (e + 896) (m * 536870912)) as (R1 & R2 & R3 & R4); [lia | lia | unfold two52; lia |].
    cbv zeta in R1, R2, R3, R4.
    unfold dy64, is_finite. cbv zeta. rewrite R2, R3, R4.
    replace (e + 896 =? 0) with false by lia. replace (e + 896 =? 2047) with false by lia. cbv beta iota.
    split; [|split; [exact R1 | reflexivity]].
    replace (e - 150 + 1074) with (29 + (e + 895)) by ring.
    replace (e + 896 - 1075 + 1074) with (e + 895) by ring.
    rewrite Z.pow_add_r by lia. rewrite pow2_29. unfold two52. ring.
Qed.

Lemma quiet_payload_range a : 0 < a < two52 ->
  0 < Z.lor a 2251799813685248 < two52.
Proof.
  intros Ha. set (x := Z.lor a 2251799813685248).
  assert (X0 : 0 <= x) by (apply Z.lor_nonneg; lia).
  assert (X1 : x <> 0) by (unfold x; rewrite Z.lor_eq_0_iff; lia).
  split; [lia|].
  change two52 with (2 ^ 52). apply Z.log2_lt_pow2; [lia|].
  unfold x. rewrite Z.log2_lor by lia.
  assert (La : Z.log2 a < 52) by (apply Z.log2_lt_pow2; [lia | change (2 ^ 52) with two52; lia]).
  change (Z.log2 2251799813685248) with 51. lia.
Qed.

Theorem f32_inf_nan : forall b, 0 <= b < 4294967296 -> (b / 8388608) mod 256 = 255 ->
  is_finite (f32_to_f64 b) = false /\ (is_nan (f32_to_f64 b) = negb (b mod 8388608 =? 0)).
Proof.
  intros b Hb He.
  pose proof (f32_fields b Hb) as F. cbv zeta in F.
  unfold f32_to_f64, two23. cbv zeta.
  set (s := b / 2147483648) in *. set (e := (b / 8388608) mod 256) in *. set (m := b mod 8388608) in *.
  destruct F as (Hs & He' & Hm & Hsg). clearbody s e m. clear Hsg Hb b. subst e.
  change (255 =? 255) with true. cbv beta iota.
  destruct (m =? 0) eqn:M0.
  - destruct (f64_assemble s 2047 0) as (R1 & R2 & R3 & R4); [lia | lia | unfold two52; lia |].
    cbv zeta in R1, R2, R3, R4. unfold is_finite, is_nan. rewrite R2, R3. split; reflexivity.
  - pose proof (quiet_payload_range (m * 536870912) ltac:(unfold two52; lia)) as Hq.
    set (x := Z.lor (m * 536870912) 2251799813685248) in *.
    destruct (f64_assemble s 2047 x) as (R1 & R2 & R3 & R4); [lia | lia | lia |].
    cbv zeta in R1, R2, R3, R4. unfold is_finite, is_nan. rewrite R2, R3.
    change (2047 =? 2047) with true. replace (x =? 0) with false by lia. split; reflexivity.
Qed.

(* every float32 pattern becomes a valid float64 pattern *)
Theorem f32_to_f64_bits_ok : forall b, 0 <= b < 4294967296 -> fbits_ok (f32_to_f64 b) = true.
Proof.
  intros b Hb. destruct (Z.eq_dec ((b / 8388608) mod 256) 255) as [E|E].
  - pose proof (f32_fields b Hb) as F. cbv zeta in F.
    unfold f32_to_f64, two23. cbv zeta.
    set (s := b / 2147483648) in *. set (e := (b / 8388608) mod 256) in *. set (m := b mod 8388608) in *.
    destruct F as (Hs & He' & Hm & Hsg). clearbody s e m. clear Hsg Hb b. subst e.
    change (255 =? 255) with true. cbv beta iota.
    assert (Hx : 0 <= (if m =? 0 then 0 else Z.lor (m * 536870912) 2251799813685248) < two52).
    { destruct (m =? 0) eqn:M0; [unfold two52; lia|].
      pose proof (quiet_payload_range (m * 536870912) ltac:(unfold two52; lia)) as Hq. lia. }
    destruct (f64_assemble s 2047 _ Hs ltac:(lia) Hx) as (R1 & _). cbv zeta in R1. unfold fbits_ok. lia.
  - pose proof (f32_to_f64_exact b Hb E) as H.
    destruct (dy32 b) as [m32 e32]. destruct (dy64 (f32_to_f64 b)) as [m64 e64].
    destruct H as (_ & H & _). unfold fbits_ok. lia.
Qed.

(* what parseVal stores for a float32 *)
Theorem norm_f32 : forall b, norm (GF32 b) = Ok (VFloat (f32_to_f64 b)).
Proof. reflexivity. Qed.

(* ================= C13 ================= *)

(* (N6) an export contains no anytype container at any depth *)
Theorem native_is_native : forall v, is_native (native v) = true.
Proof.
  induction v as [| b | z | b | s | l IH | kvs IH] using val_ind'; try reflexivity.
  - cbn [native is_native]. induction IH as [|x t Hx _ IHt]; [reflexivity|].
    cbn [map forallb]. rewrite Hx, IHt. reflexivity.
  - cbn [native is_native]. induction IH as [|x t Hx _ IHt]; [reflexivity|].
    cbn [map forallb snd]. rewrite Hx, IHt. reflexivity.
Qed.

(* (N7) re-importing an export gives back the same content (holds for every tree; wfb is not needed because
   native exports ints as Go `int`, which parseVal stores unchanged) *)
Lemma norm_native_all : forall v, norm (native v) = Ok v.
Proof.
  induction v as [| b | z | b | s | l IH | kvs IH] using val_ind'; try reflexivity.
  - cbn [native]. rewrite norm_slice_unfold.
    assert (E : norm_list (map native l) = Ok l).
    { induction IH as [|x t Hx _ IHt]; [reflexivity|].
      cbn [map]. rewrite norm_list_cons, Hx, IHt. reflexivity. }
    rewrite E. reflexivity.
  - cbn [native]. rewrite norm_map_unfold.
    assert (E : norm_kvs (map (fun kv => (fst kv, native (snd kv))) kvs) = Ok kvs).
    { induction IH as [|[k x] t Hx _ IHt]; [reflexivity|].
      cbn [map fst snd] in *. rewrite norm_kvs_cons, Hx, IHt. reflexivity. }
    rewrite E. reflexivity.
Qed.

Theorem norm_native : forall v, wfb v = true -> norm (native v) = Ok v.
Proof. intros v _. apply norm_native_all. Qed.

(* (N8) NewXFrom(m).NativeX() reproduces a canonical native tree m *)
Theorem native_norm : forall g v, canonical_native g = true -> norm g = Ok v -> native v = g.
Proof.
  induction g as [g Hl | l IH | kvs IH] using gov_ind'; intros v Hc Hn.
  - destruct g; try contradiction; try discriminate Hc;
      try (cbn [norm] in Hn; injection Hn as <-; reflexivity).
    (* GIntW *) destruct w; try discriminate Hc. cbn [norm] in Hn. injection Hn as <-. reflexivity.
  - apply norm_slice_any_shape in Hn. destruct Hn as [vs [-> Hvs]]. cbn [native]. f_equal.
    cbn [canonical_native] in Hc. revert vs Hvs Hc.
    induction IH as [|x t Hx _ IHt]; intros vs Hvs Hc.
    + cbn [norm_list] in Hvs. injection Hvs as <-. reflexivity.
    + rewrite norm_list_cons in Hvs. destruct (norm x) as [w|] eqn:Ex; [|discriminate].
      destruct (norm_list t) as [ws|] eqn:Et; [|discriminate]. injection Hvs as <-.
      cbn [forallb] in Hc. apply andb_true_iff in Hc. destruct Hc as [Hc1 Hc2].
      cbn [map]. f_equal; [apply Hx; [exact Hc1 | reflexivity] | apply IHt; [reflexivity | exact Hc2]].
  - apply norm_map_any_shape in Hn. destruct Hn as [m [-> Hm]]. cbn [native]. f_equal.
    cbn [canonical_native] in Hc. revert m Hm Hc.
    induction IH as [|[k x] t Hx _ IHt]; intros m Hm Hc.
    + cbn [norm_kvs] in Hm. injection Hm as <-. reflexivity.
    + rewrite norm_kvs_cons in Hm. cbn [snd] in Hx. destruct (norm x) as [w|] eqn:Ex; [|discriminate].
      destruct (norm_kvs t) as [ws|] eqn:Et; [|discriminate]. injection Hm as <-.
      cbn [forallb snd] in Hc. apply andb_true_iff in Hc. destruct Hc as [Hc1 Hc2].
      cbn [map fst snd]. f_equal; [f_equal; apply Hx; [exact Hc1 | reflexivity] | apply IHt; [reflexivity | exact Hc2]].
Qed.

(* the export of a well-formed tree is canonical, so N7/N8 are a bijection between wf trees and canonical natives *)
Theorem native_canonical : forall v, wfb v = true -> canonical_native (native v) = true.
Proof.
  induction v as [| b | z | b | s | l IH | kvs IH] using val_ind'; intros Hw; try reflexivity.
  - exact Hw.
  - cbn [native canonical_native]. cbn [wfb] in Hw. induction IH as [|x t Hx _ IHt]; [reflexivity|].
    cbn [forallb] in Hw. apply andb_true_iff in Hw. destruct Hw as [H1 H2].
    cbn [map forallb]. rewrite (Hx H1), (IHt H2). reflexivity.
  - cbn [native canonical_native]. cbn [wfb] in Hw. apply andb_true_iff in Hw. destruct Hw as [_ Hw].
    induction IH as [|x t Hx _ IHt]; [reflexivity|].
    cbn [forallb] in Hw. apply andb_true_iff in Hw. destruct Hw as [H1 H2].
    cbn [map forallb snd]. rewrite (Hx H1), (IHt H2). reflexivity.
Qed.

(* (N9) Slice() / Dict() hold exactly what Get returns per index / key *)
Definition reimport (g : gov) : val :=
  match g with GObjC c => VObj c | GListC c => VList c | _ => match norm g with Ok v => v | Panic => VNil end end.

Lemma reimport_shallow v : reimport (shallow v) = v.
Proof. destruct v; reflexivity. Qed.

Theorem snapshot_shallow : forall l,
  map (fun g => match g with GObjC c => VObj c | GListC c => VList c
                | _ => match norm g with Ok v => v | Panic => VNil end end) (slice_snapshot l) = l.
Proof.
  intros l. change (map reimport (slice_snapshot l) = l). unfold slice_snapshot.
  induction l as [|x t IH]; [reflexivity|]. cbn [map]. rewrite reimport_shallow, IH. reflexivity.
Qed.

Theorem dict_snapshot_shallow : forall kvs,
  map (fun kg => (fst kg, reimport (snd kg))) (dict_snapshot kvs) = kvs.
Proof.
  intros kvs. unfold dict_snapshot.
  induction kvs as [|[k x] t IH]; [reflexivity|]. cbn [map fst snd]. rewrite reimport_shallow, IH. reflexivity.
Qed.

Theorem dict_snapshot_keys : forall kvs, map fst (dict_snapshot kvs) = map fst kvs.
Proof. intros kvs. unfold dict_snapshot. rewrite map_map. reflexivity. Qed.

(* snapshots are one level deep: nested containers stay anytype containers, scalars are plain *)
Theorem snapshot_norm : forall v, norm (shallow v) = Ok v.
Proof. destruct v; reflexivity. Qed.
