(* Acyclic.v — acyclicity of the reference heap as a CHECKED condition plus an invariant theorem.
   Many theorems of the development (Clone, tree form, Equals, String) talk about acyclic containers: [reify] must succeed.
   Here: a decidable reachability test [reachb], the notion [heap_acyclic] (no container reaches itself through one or more
   member steps), the storing discipline [stores_okb] (a decidable per-step condition on the CURRENT state: what is stored
   into an existing container must not reach that container), and the invariant: a program all of whose steps satisfy the
   discipline only ever produces acyclic heaps, in which every variable reads as a finite tree at the interpreter's fuel. *)
From Anytype Require Import Base FloatBits Value GoInt Sorting Equality Heap Aggregates HeapExt HeapProofs TreeFormProofs
  CloneProofs CloneHistory Footprint HeapExtProofs Reachable.
Local Open Scope nat_scope.
Arguments clone_val : simpl never.  Arguments reify : simpl never.
Arguments get_tf : simpl never.  Arguments typeof_tf : simpl never.
Arguments set_tf : simpl never.  Arguments unset_tf : simpl never.

Notation ref_ok := CloneProofs.ref_ok.
Notation heap_wf := CloneProofs.heap_wf.

(* ================= 1. reachability test, acyclicity ================= *)
(* [reachb], [store_okb], [tf_store_okb], [stores_okb], [run_okb] are defined in HeapExt.v (the model), so that the correspondence
   runner can evaluate them without depending on this proof file *)

(* x is an element of list cell id or a field value of object cell id *)
Definition member_of (h : heap) (id : nat) (x : hval) : Prop :=
  exists c, nth_error h id = Some c /\ In x (members c).

(* no container reaches itself through one or more steps *)
Definition heap_acyclic (h : heap) : Prop := forall id, ~ (exists x, member_of h id x /\ Reach h x id).

Lemma member_list h id l x : get_list h id = Some l -> In x l -> member_of h id x.
Proof. intros G I. apply get_list_nth in G. exists (CList l). split; [exact G | exact I]. Qed.
Lemma member_obj h id kvs k x : get_obj h id = Some kvs -> In (k, x) kvs -> member_of h id x.
Proof. intros G I. apply get_obj_nth in G. exists (CObj kvs). split; [exact G|]. cbn [members].
  apply in_map_iff. exists (k, x). split; [reflexivity | exact I]. Qed.

Theorem reachb_sound : forall f h v id, reachb f h v id = true -> Reach h v id.
Proof. induction f as [|f IH]; intros h v id H; [discriminate|]. cbn [reachb] in H.
  destruct v as [| | | | |i|i]; try discriminate.
  - apply orb_true_iff in H as [H|H]; [apply Nat.eqb_eq in H; subst; apply reach_l_self|].
    destruct (get_list h i) as [l|] eqn:G; [|discriminate]. apply existsb_exists in H as [x [I H]].
    exact (reach_l_elem _ _ _ _ _ G I (IH _ _ _ H)).
  - apply orb_true_iff in H as [H|H]; [apply Nat.eqb_eq in H; subst; apply reach_o_self|].
    destruct (get_obj h i) as [kvs|] eqn:G; [|discriminate]. apply existsb_exists in H as [[k x] [I H]]. cbn [snd] in H.
    exact (reach_o_field _ _ _ _ _ _ G I (IH _ _ _ H)). Qed.

(* one more step at the far end of a path *)
Lemma reach_step h v i x r : heap_wf h -> ref_ok h v -> Reach h v i -> member_of h i x -> Reach h x r -> Reach h v r.
Proof. intros W OK R. revert OK.
  induction R as [id|id|id l y i G I R IHR|id kvs k y i G I R IHR]; intros OK [c [E M]] Rx.
  - destruct OK as [l G]. pose proof G as G'. apply get_list_nth in G'. rewrite G' in E. injection E as <-.
    exact (reach_l_elem _ _ _ _ _ G M Rx).
  - destruct OK as [kvs G]. pose proof G as G'. apply get_obj_nth in G'. rewrite G' in E. injection E as <-.
    cbn [members] in M. apply in_map_iff in M as [[k y] [E1 M]]. cbn [snd] in E1. subst y.
    exact (reach_o_field _ _ _ _ _ _ G M Rx).
  - apply (reach_l_elem _ _ _ _ _ G I). apply IHR; [exact (wf_list _ _ _ W G y I) | exists c; split; assumption | exact Rx].
  - apply (reach_o_field _ _ _ _ _ _ G I). apply IHR; [|exists c; split; assumption | exact Rx].
    apply (wf_obj _ _ _ W G). apply in_map_iff. exists (k, y). split; [reflexivity | exact I]. Qed.

(* ---------- an acyclic well-formed heap reads every value as a finite tree, at fuel S (length h) ---------- *)
Lemma reify_list_ok f h : forall l, (forall x, In x l -> reify f h x <> None) -> reify_list f h l <> None.
Proof. induction l as [|x t IH]; intros H; cbn [reify_list]; [discriminate|].
  destruct (reify f h x) as [tx|] eqn:Ex; [|exfalso; exact (H x (or_introl eq_refl) Ex)].
  destruct (reify_list f h t) as [tt|] eqn:Et; [discriminate|].
  exfalso. apply (IH (fun y Hy => H y (or_intror Hy))). reflexivity. Qed.
Lemma reify_kvs_ok f h : forall l, (forall k x, In (k, x) l -> reify f h x <> None) -> reify_kvs f h l <> None.
Proof. induction l as [|[k x] t IH]; intros H; cbn [reify_kvs]; [discriminate|].
  destruct (reify f h x) as [tx|] eqn:Ex; [|exfalso; exact (H k x (or_introl eq_refl) Ex)].
  destruct (reify_kvs f h t) as [tt|] eqn:Et; [discriminate|].
  exfalso. apply (IH (fun k0 y Hy => H k0 y (or_intror Hy))). reflexivity. Qed.
(* s is a proper ancestor of j *)
Definition anc (h : heap) (s j : nat) : Prop := exists x, member_of h s x /\ Reach h x j.

(* the containers on the current descent path are pairwise distinct (no cycle), so there are at most [length h] of them *)
Lemma depth_bound h : heap_wf h -> heap_acyclic h -> forall f v seen, ref_ok h v -> NoDup seen ->
  (forall s, In s seen -> s < length h) -> (forall s j, In s seen -> Reach h v j -> anc h s j) ->
  length h < length seen + f -> reify f h v <> None.
Proof. intros W A. induction f as [|f IH]; intros v seen OK ND LT AN LE.
  - exfalso. assert (H: length seen <= length (seq 0 (length h))).
    { apply NoDup_incl_length; [exact ND|]. intros s Hs. apply in_seq. split; [lia|]. cbn. exact (LT s Hs). }
    rewrite seq_length in H. lia.
  - rewrite reify_S. destruct v as [| | | | |i|i]; try discriminate.
    + destruct OK as [l G]. rewrite G.
      assert (NI: ~ In i seen).
      { intros Hi. destruct (AN i i Hi (reach_l_self _ _)) as [x [M R]]. exact (A i (ex_intro _ x (conj M R))). }
      assert (RL: reify_list f h l <> None).
      { apply reify_list_ok. intros x Hx. apply (IH x (i :: seen)).
        - exact (wf_list _ _ _ W G x Hx).
        - constructor; assumption.
        - intros s [<-|Hs]; [exact (get_list_lt _ _ _ G) | exact (LT s Hs)].
        - intros s j [<-|Hs] R.
          + exists x. split; [exact (member_list _ _ _ _ G Hx) | exact R].
          + apply (AN s j Hs). exact (reach_l_elem _ _ _ _ _ G Hx R).
        - cbn [length]. lia. }
      destruct (reify_list f h l) as [ts|] eqn:E; [discriminate | exfalso; congruence].
    + destruct OK as [kvs G]. rewrite G.
      assert (NI: ~ In i seen).
      { intros Hi. destruct (AN i i Hi (reach_o_self _ _)) as [x [M R]]. exact (A i (ex_intro _ x (conj M R))). }
      assert (RL: reify_kvs f h kvs <> None).
      { apply reify_kvs_ok. intros k x Hx. apply (IH x (i :: seen)).
        - apply (wf_obj _ _ _ W G). apply in_map_iff. exists (k, x). split; [reflexivity | exact Hx].
        - constructor; assumption.
        - intros s [<-|Hs]; [exact (get_obj_lt _ _ _ G) | exact (LT s Hs)].
        - intros s j [<-|Hs] R.
          + exists x. split; [exact (member_obj _ _ _ _ _ G Hx) | exact R].
          + apply (AN s j Hs). exact (reach_o_field _ _ _ _ _ _ G Hx R).
        - cbn [length]. lia. }
      destruct (reify_kvs f h kvs) as [ts|] eqn:E; [discriminate | exfalso; congruence]. Qed.

Theorem heap_acyclic_reify : forall h v, heap_wf h -> heap_acyclic h -> ref_ok h v -> reify (S (length h)) h v <> None.
Proof. intros h v W A OK. apply (depth_bound h W A (S (length h)) v []); [exact OK | constructor | intros s [] | intros s j [] |].
  cbn [length]. lia. Qed.
Corollary heap_acyclic_reify_ex : forall h v, heap_wf h -> heap_acyclic h -> ref_ok h v -> exists f t, reify f h v = Some t.
Proof. intros h v W A OK. pose proof (heap_acyclic_reify h v W A OK) as R. exists (S (length h)).
  destruct (reify (S (length h)) h v) as [t|]; [exists t; reflexivity | exfalso; apply R; reflexivity]. Qed.

(* ---------- completeness of the fuelled search at fuel S (length h), on ANY heap (cyclic, ill-formed: no hypothesis) ---------- *)
(* a path all of whose containers lie outside [av] *)
Inductive ReachA (h : heap) (av : list nat) : hval -> nat -> Prop :=
| ra_l_self id : ~ In id av -> ReachA h av (HL id) id
| ra_o_self id : ~ In id av -> ReachA h av (HO id) id
| ra_l_elem id l x r : ~ In id av -> get_list h id = Some l -> In x l -> ReachA h av x r -> ReachA h av (HL id) r
| ra_o_field id kvs k x r : ~ In id av -> get_obj h id = Some kvs -> In (k, x) kvs -> ReachA h av x r -> ReachA h av (HO id) r.

Lemma reach_ra h v r : Reach h v r -> ReachA h [] v r.
Proof. induction 1 as [id|id|id l x r G I R IHR|id kvs k x r G I R IHR].
  - apply ra_l_self. intros [].
  - apply ra_o_self. intros [].
  - exact (ra_l_elem h [] id l x r (fun F => F) G I IHR).
  - exact (ra_o_field h [] id kvs k x r (fun F => F) G I IHR). Qed.

(* cut a path at its LAST visit of container i: it avoids i altogether, or ends there, or leaves i for good through a member *)
Lemma ra_last h av i : forall v r, ReachA h av v r ->
  ReachA h (i :: av) v r \/ r = i \/
  exists y, ReachA h (i :: av) y r /\
            ((exists l, get_list h i = Some l /\ In y l) \/ (exists kvs k, get_obj h i = Some kvs /\ In (k, y) kvs)).
Proof. intros v r R. induction R as [id N|id N|id l x r N G I R IHR|id kvs k x r N G I R IHR].
  - destruct (Nat.eq_dec id i) as [->|D]; [right; left; reflexivity | left].
    apply ra_l_self. intros [E|H]; [exact (D (eq_sym E)) | exact (N H)].
  - destruct (Nat.eq_dec id i) as [->|D]; [right; left; reflexivity | left].
    apply ra_o_self. intros [E|H]; [exact (D (eq_sym E)) | exact (N H)].
  - destruct IHR as [Ra | [-> | Y]]; [|right; left; reflexivity | right; right; exact Y].
    destruct (Nat.eq_dec id i) as [->|D].
    + right. right. exists x. split; [exact Ra | left; exists l; split; assumption].
    + left. apply (ra_l_elem h (i :: av) id l x r); try assumption. intros [E|H]; [exact (D (eq_sym E)) | exact (N H)].
  - destruct IHR as [Ra | [-> | Y]]; [|right; left; reflexivity | right; right; exact Y].
    destruct (Nat.eq_dec id i) as [->|D].
    + right. right. exists x. split; [exact Ra | right; exists kvs, k; split; assumption].
    + left. apply (ra_o_field h (i :: av) id kvs k x r); try assumption. intros [E|H]; [exact (D (eq_sym E)) | exact (N H)]. Qed.

Lemma list_not_obj h i l kvs : get_list h i = Some l -> get_obj h i = Some kvs -> False.
Proof. intros G1 G2. apply get_list_nth in G1. apply get_obj_nth in G2. congruence. Qed.

(* the avoided containers are pairwise distinct cells, so there are at most [length h] of them *)
Lemma ra_reachb h : forall f av v id, NoDup av -> (forall s, In s av -> s < length h) -> ReachA h av v id ->
  length h < length av + f -> reachb f h v id = true.
Proof. induction f as [|f IH]; intros av v id ND LT R LE.
  - exfalso. assert (H: length av <= length (seq 0 (length h))).
    { apply NoDup_incl_length; [exact ND|]. intros s Hs. apply in_seq. split; [lia|]. cbn. exact (LT s Hs). }
    rewrite seq_length in H. lia.
  - destruct R as [j N|j N|j l x r N G I R|j kvs k x r N G I R]; cbn [reachb].
    + rewrite Nat.eqb_refl. reflexivity.
    + rewrite Nat.eqb_refl. reflexivity.
    + rewrite G. apply orb_true_iff.
      assert (ND': NoDup (j :: av)) by (constructor; assumption).
      assert (LT': forall s, In s (j :: av) -> s < length h) by (intros s [<-|Hs]; [exact (get_list_lt _ _ _ G) | exact (LT s Hs)]).
      assert (LE': length h < length (j :: av) + f) by (cbn [length]; lia).
      destruct (ra_last h av j _ _ R) as [Ra | [-> | [y [Ry M]]]].
      * right. apply existsb_exists. exists x. split; [exact I | exact (IH _ _ _ ND' LT' Ra LE')].
      * left. apply Nat.eqb_refl.
      * right. destruct M as [[l' [G' I']] | [kvs [k [G' I']]]]; [|exfalso; exact (list_not_obj _ _ _ _ G G')].
        rewrite G in G'. injection G' as <-. apply existsb_exists. exists y. split; [exact I' | exact (IH _ _ _ ND' LT' Ry LE')].
    + rewrite G. apply orb_true_iff.
      assert (ND': NoDup (j :: av)) by (constructor; assumption).
      assert (LT': forall s, In s (j :: av) -> s < length h) by (intros s [<-|Hs]; [exact (get_obj_lt _ _ _ G) | exact (LT s Hs)]).
      assert (LE': length h < length (j :: av) + f) by (cbn [length]; lia).
      destruct (ra_last h av j _ _ R) as [Ra | [-> | [y [Ry M]]]].
      * right. apply existsb_exists. exists (k, x). split; [exact I | exact (IH _ _ _ ND' LT' Ra LE')].
      * left. apply Nat.eqb_refl.
      * right. destruct M as [[l' [G' I']] | [kvs' [k' [G' I']]]]; [exfalso; exact (list_not_obj _ _ _ _ G' G)|].
        rewrite G in G'. injection G' as <-. apply existsb_exists. exists (k', y). split; [exact I' | exact (IH _ _ _ ND' LT' Ry LE')]. Qed.

Theorem reachb_complete_gen : forall h v id, Reach h v id -> reachb (S (length h)) h v id = true.
Proof. intros h v id R. apply (ra_reachb h (S (length h)) [] v id); [constructor | intros s [] | exact (reach_ra _ _ _ R) | cbn [length]; lia]. Qed.

(* the statement as asked for (its two hypotheses are not needed) *)
Theorem reachb_complete : forall h v id, heap_wf h -> ref_ok h v -> Reach h v id -> reachb (S (length h)) h v id = true.
Proof. intros h v id _ _. apply reachb_complete_gen. Qed.

Corollary reachb_spec : forall h v id, reachb (S (length h)) h v id = true <-> Reach h v id.
Proof. intros h v id. split; [apply reachb_sound | apply reachb_complete_gen]. Qed.

(* ================= 2. the two ways a heap changes ================= *)
(* (a) a new cell whose members are old values *)
Lemma acyclic_alloc h c : heap_wf h -> heap_acyclic h -> all_ok h (members c) -> heap_acyclic (h ++ [c]).
Proof. intros W A M id [x [[c0 [E I]] R]]. destruct (lt_dec id (length h)) as [L|L].
  - rewrite nth_error_app1 in E by exact L. pose proof (wf_members h id c0 W E x I) as OX.
    destruct (alloc_outside h x c 0 (fun r Rr => reach_lt _ _ _ W OX Rr)) as [_ Q]. apply Q in R.
    apply (A id). exists x. split; [exists c0; split; assumption | exact R].
  - assert (id = length h).
    { assert (id < length (h ++ [c])) by (apply nth_error_Some; congruence). rewrite app_length in H. cbn [length] in H. lia. }
    subst id. rewrite nth_error_app_last in E. injection E as <-.
    pose proof (source_old h [c] x (length h) W (M x I) R). lia. Qed.

(* (b) a cell is overwritten: every path in the new heap either exists in the old one, or enters the written cell
   (first visit) and leaves it for the last time through one of its new members *)
Lemma reach_upd_inv h id c' : id < length h -> forall v r, Reach (upd h id c') v r ->
  Reach h v r \/ (Reach h v id /\ exists y, In y (members c') /\ Reach h y r).
Proof. intros L v r R.
  induction R as [i|i|i l x r G I R IHR|i kvs k x r G I R IHR].
  - left. apply reach_l_self.
  - left. apply reach_o_self.
  - destruct (Nat.eq_dec i id) as [->|N].
    + apply get_list_nth in G. rewrite nth_error_upd_eq in G by exact L. injection G as ->. right.
      split; [apply reach_l_self|]. destruct IHR as [Rx | [_ [y [Iy Ry]]]]; [exists x | exists y]; split; assumption.
    + assert (G0: get_list h i = Some l).
      { unfold get_list in *. rewrite nth_error_upd_neq in G by (intros E0; apply N; symmetry; exact E0). exact G. }
      destruct IHR as [Rx | [Rid Y]]; [left; exact (reach_l_elem _ _ _ _ _ G0 I Rx) | right].
      split; [exact (reach_l_elem _ _ _ _ _ G0 I Rid) | exact Y].
  - destruct (Nat.eq_dec i id) as [->|N].
    + apply get_obj_nth in G. rewrite nth_error_upd_eq in G by exact L. injection G as ->. right.
      assert (Ix: In x (members (CObj kvs))).
      { cbn [members]. apply in_map_iff. exists (k, x). split; [reflexivity | exact I]. }
      split; [apply reach_o_self|]. destruct IHR as [Rx | [_ [y [Iy Ry]]]]; [exists x | exists y]; split; assumption.
    + assert (G0: get_obj h i = Some kvs).
      { unfold get_obj in *. rewrite nth_error_upd_neq in G by (intros E0; apply N; symmetry; exact E0). exact G. }
      destruct IHR as [Rx | [Rid Y]]; [left; exact (reach_o_field _ _ _ _ _ _ G0 I Rx) | right].
      split; [exact (reach_o_field _ _ _ _ _ _ G0 I Rid) | exact Y]. Qed.

(* overwriting cell id with old members and values that do not reach id keeps acyclicity *)
Lemma acyclic_upd h id c c' : heap_wf h -> heap_acyclic h -> nth_error h id = Some c ->
  (forall x, In x (members c') -> In x (members c) \/ (ref_ok h x /\ ~ Reach h x id)) ->
  heap_acyclic (upd h id c').
Proof. intros W A E H id0 [x [[c0 [E0 I]] R]].
  assert (L: id < length h) by (apply nth_error_Some; congruence).
  assert (FIN: forall y, In y (members c') -> Reach h y id -> False).
  { intros y Iy Ry. destruct (H y Iy) as [Iy0 | [_ NR]]; [|exact (NR Ry)].
    apply (A id). exists y. split; [exists c; split; assumption | exact Ry]. }
  destruct (Nat.eq_dec id0 id) as [->|N].
  - rewrite nth_error_upd_eq in E0 by exact L. injection E0 as <-.
    destruct (reach_upd_inv h id c' L x id R) as [Rx | [Rx _]]; exact (FIN x I Rx).
  - rewrite nth_error_upd_neq in E0 by (intros E1; apply N; symmetry; exact E1).
    destruct (reach_upd_inv h id c' L x id0 R) as [Rx | [Rid [y [Iy Ry]]]].
    + apply (A id0). exists x. split; [exists c0; split; assumption | exact Rx].
    + apply (FIN y Iy). assert (OY: ref_ok h y).
      { destruct (H y Iy) as [Iy0 | [OY _]]; [exact (wf_members h id c W E y Iy0) | exact OY]. }
      apply (reach_step h y id0 x id W OY Ry); [exists c0; split; assumption | exact Rid]. Qed.

Lemma scalar_no_reach h z r : is_ref z = false -> ~ Reach h z r.
Proof. intros SC R. pose proof (reach_is_ref _ _ _ R). destruct z; try discriminate; contradiction. Qed.

Lemma acy_set_list h id l l' : heap_wf h -> heap_acyclic h -> get_list h id = Some l ->
  (forall z, In z l' -> In z l \/ (ref_ok h z /\ ~ Reach h z id)) -> heap_acyclic (set_list h id l').
Proof. intros W A G H. apply get_list_nth in G. exact (acyclic_upd h id (CList l) (CList l') W A G H). Qed.
Lemma acy_set_obj h id kvs kvs' : heap_wf h -> heap_acyclic h -> get_obj h id = Some kvs ->
  (forall z, In z (map snd kvs') -> In z (map snd kvs) \/ (ref_ok h z /\ ~ Reach h z id)) -> heap_acyclic (set_obj h id kvs').
Proof. intros W A G H. apply get_obj_nth in G. exact (acyclic_upd h id (CObj kvs) (CObj kvs') W A G H). Qed.
Lemma acy_sub_list h id l l' : heap_wf h -> heap_acyclic h -> get_list h id = Some l ->
  (forall z, In z l' -> In z l) -> heap_acyclic (set_list h id l').
Proof. intros W A G H. apply (acy_set_list h id l l' W A G). intros z Hz. left. exact (H z Hz). Qed.
Lemma acy_sub_obj h id kvs kvs' : heap_wf h -> heap_acyclic h -> get_obj h id = Some kvs ->
  (forall z, In z (map snd kvs') -> In z (map snd kvs)) -> heap_acyclic (set_obj h id kvs').
Proof. intros W A G H. apply (acy_set_obj h id kvs kvs' W A G). intros z Hz. left. exact (H z Hz). Qed.

(* ================= heaps that grow by allocation only, keeping acyclicity ================= *)
Definition aext (h h' : heap) : Prop := grows h h' /\ (heap_acyclic h -> heap_acyclic h').

Lemma aext_refl h : heap_wf h -> aext h h.
Proof. intros W. split; [apply grows_refl; exact W | auto]. Qed.
Lemma aext_trans a b c : aext a b -> aext b c -> aext a c.
Proof. intros [G1 A1] [G2 A2]. split; [exact (grows_trans _ _ _ G1 G2) | auto]. Qed.
Lemma aext_alloc h c : heap_wf h -> all_ok h (members c) -> aext h (h ++ [c]).
Proof. intros W M. split; [exact (grows_alloc h c W M) | intros A; exact (acyclic_alloc h c W A M)]. Qed.
Lemma aext_rok h h' v : aext h h' -> ref_ok h v -> ref_ok h' v.
Proof. intros [[_ S] _]. exact (rok_mono _ _ _ S). Qed.
Lemma aext_all_ok h h' l : aext h h' -> all_ok h l -> all_ok h' l.
Proof. intros [[_ S] _]. exact (all_ok_mono _ _ _ S). Qed.
Lemma aext_wf h h' : aext h h' -> heap_wf h'.
Proof. intros [[W _] _]. exact W. Qed.

(* ---------- Clone ---------- *)
Lemma clone_aext : forall f h v h' v', heap_wf h -> ref_ok h v -> clone_val f h v = Some (h', v') -> aext h h' /\ ref_ok h' v'.
Proof. induction f as [|f IH]; intros h v h' v' WF OK C; [rewrite clone_val_0 in C; discriminate|].
  rewrite clone_val_S in C.
  destruct v as [| | | | |id|id]; try (injection C as <- <-; split; [apply aext_refl; exact WF | exact I]).
  - destruct (get_list h id) as [l|] eqn:G; [|discriminate].
    destruct (clone_list f h l) as [[h1 l']|] eqn:CL; [|discriminate]. injection C as <- <-.
    assert (A: forall l h0 h1 l', heap_wf h0 -> all_ok h0 l -> clone_list f h0 l = Some (h1, l') -> aext h0 h1 /\ all_ok h1 l').
    { clear - IH. induction l as [|x r IHr]; intros h0 h1 l' W0 O0 E; cbn [clone_list] in E.
      - injection E as <- <-. split; [apply aext_refl; exact W0 | apply all_ok_nil].
      - destruct (clone_val f h0 x) as [[h2 x']|] eqn:Cx; [|discriminate].
        destruct (clone_list f h2 r) as [[h3 r']|] eqn:Cr; [|discriminate]. injection E as <- <-.
        destruct (IH _ _ _ _ W0 (O0 _ (or_introl eq_refl)) Cx) as [X2 O2].
        assert (O0': all_ok h2 r) by (apply (aext_all_ok _ _ _ X2); intros y Hy; apply O0; right; exact Hy).
        destruct (IHr _ _ _ (aext_wf _ _ X2) O0' Cr) as [X3 O3].
        split; [exact (aext_trans _ _ _ X2 X3)|]. intros y [<- | Hy]; [exact (aext_rok _ _ _ X3 O2) | exact (O3 _ Hy)]. }
    destruct (A _ _ _ _ WF (wf_list _ _ _ WF G) CL) as [X1 O1]. split.
    + exact (aext_trans _ _ _ X1 (aext_alloc h1 (CList l') (aext_wf _ _ X1) O1)).
    + apply new_list_ok.
  - destruct (get_obj h id) as [l|] eqn:G; [|discriminate].
    destruct (clone_kvs f h l) as [[h1 l']|] eqn:CL; [|discriminate]. injection C as <- <-.
    assert (A: forall l h0 h1 l', heap_wf h0 -> all_ok h0 (map snd l) -> clone_kvs f h0 l = Some (h1, l') ->
               aext h0 h1 /\ all_ok h1 (map snd l')).
    { clear - IH. induction l as [|[k x] r IHr]; intros h0 h1 l' W0 O0 E; cbn [clone_kvs] in E.
      - injection E as <- <-. split; [apply aext_refl; exact W0 | apply all_ok_nil].
      - destruct (clone_val f h0 x) as [[h2 x']|] eqn:Cx; [|discriminate].
        destruct (clone_kvs f h2 r) as [[h3 r']|] eqn:Cr; [|discriminate]. injection E as <- <-.
        destruct (IH _ _ _ _ W0 (O0 _ (or_introl eq_refl)) Cx) as [X2 O2].
        assert (O0': all_ok h2 (map snd r)) by (apply (aext_all_ok _ _ _ X2); intros y Hy; apply O0; right; exact Hy).
        destruct (IHr _ _ _ (aext_wf _ _ X2) O0' Cr) as [X3 O3].
        split; [exact (aext_trans _ _ _ X2 X3)|]. cbn [map snd].
        intros y [<- | Hy]; [exact (aext_rok _ _ _ X3 O2) | exact (O3 _ Hy)]. }
    destruct (A _ _ _ _ WF (wf_obj _ _ _ WF G) CL) as [X1 O1]. split.
    + exact (aext_trans _ _ _ X1 (aext_alloc h1 (CObj l') (aext_wf _ _ X1) O1)).
    + apply new_obj_ok. Qed.

(* ---------- the callbacks of the Map family, NewListFrom / NewObjectFrom ---------- *)
Lemma store_aext h f tag x h1 v : heap_wf h -> (forall h0, ref_ok h0 tag) -> ref_ok h x ->
  store h (apply_mapf f tag x) = (h1, v) -> aext h h1 /\ ref_ok h1 v.
Proof. intros W T OX E. destruct f; cbn [apply_mapf store] in E; unfold alloc in E; injection E as <- <-.
  - split; [apply aext_refl; exact W | exact OX].
  - split; [|apply new_list_ok]. apply aext_alloc; [exact W|]. cbn [members].
    intros z [<- | [<- | []]]; [apply T | exact OX].
  - split; [|apply new_obj_ok]. apply aext_alloc; [exact W|]. cbn [members map snd].
    intros z [<- | [<- | []]]; [apply T | exact OX].
  - split; [apply aext_refl; exact W | exact I]. Qed.

Lemma map_loop_aext sel f tagf : (forall i x h0, ref_ok h0 (tagf i x)) -> forall l h i acc h' res,
  heap_wf h -> all_ok h l -> all_ok h acc -> map_loop sel f tagf h l i acc = (h', res) -> aext h h' /\ all_ok h' res.
Proof. intros T. induction l as [|x t IH]; intros h i acc h' res W AL AA E; cbn [map_loop] in E.
  - injection E as <- <-. split; [apply aext_refl; exact W | exact AA].
  - assert (AT: all_ok h t) by (intros z Hz; apply AL; right; exact Hz).
    destruct (sel x); [|exact (IH _ _ _ _ _ W AT AA E)].
    destruct (store h (apply_mapf f (tagf i x) x)) as [h1 v] eqn:S.
    destruct (store_aext _ _ _ _ _ _ W (T i x) (AL x (or_introl eq_refl)) S) as [X1 O1].
    assert (AA1: all_ok h1 (acc ++ [v])).
    { apply all_ok_app; [exact (aext_all_ok _ _ _ X1 AA) | intros z [<- | []]; exact O1]. }
    destruct (IH _ _ _ _ _ (aext_wf _ _ X1) (aext_all_ok _ _ _ X1 AT) AA1 E) as [X2 A2].
    split; [exact (aext_trans _ _ _ X1 X2) | exact A2]. Qed.

Lemma omap_loop_aext sel f tagf : (forall k x h0, ref_ok h0 (tagf k x)) -> forall kvs h acc h' res,
  heap_wf h -> all_ok h (map snd kvs) -> all_ok h (map snd acc) -> omap_loop sel f tagf h kvs acc = (h', res) ->
  aext h h' /\ all_ok h' (map snd res).
Proof. intros T. induction kvs as [|[k x] t IH]; intros h acc h' res W AL AA E; cbn [omap_loop] in E.
  - injection E as <- <-. split; [apply aext_refl; exact W | exact AA].
  - assert (AT: all_ok h (map snd t)) by (intros z Hz; apply AL; right; exact Hz).
    destruct (sel x); [|exact (IH _ _ _ _ W AT AA E)].
    destruct (store h (apply_mapf f (tagf k x) x)) as [h1 v] eqn:S.
    destruct (store_aext _ _ _ _ _ _ W (T k x) (AL x (or_introl eq_refl)) S) as [X1 O1].
    assert (AA1: all_ok h1 (map snd (aset k v acc))).
    { apply aset_ok; [exact (aext_all_ok _ _ _ X1 AA) | exact O1]. }
    destruct (IH _ _ _ _ (aext_wf _ _ X1) (aext_all_ok _ _ _ X1 AT) AA1 E) as [X2 A2].
    split; [exact (aext_trans _ _ _ X1 X2) | exact A2]. Qed.

Definition src_aext (env : list hval) (n : nsrc) : Prop :=
  forall h h' v, Forall (operand_okh h) (nsrc_operands n) -> heap_wf h -> Forall (ref_ok h) env ->
    store_src env h n = Some (h', v) -> aext h h' /\ ref_ok h' v.

Lemma aext_kinds h h' : aext h h' -> same_kinds h h'.
Proof. intros [[_ S] _]. exact S. Qed.

Lemma store_srcs_aext env l : Forall (src_aext env) l -> forall h h' vs,
  Forall (operand_okh h) (flat_map nsrc_operands l) -> heap_wf h -> Forall (ref_ok h) env ->
  store_srcs env h l = Some (h', vs) -> aext h h' /\ all_ok h' vs.
Proof. induction 1 as [|x t Hx _ IH]; intros h h' vs OK W EV E; cbn [store_srcs] in E.
  - injection E as <- <-. split; [apply aext_refl; exact W | apply all_ok_nil].
  - cbn [flat_map] in OK. apply Forall_app in OK as [OKx OKt].
    destruct (store_src env h x) as [[h1 v]|] eqn:Ex; [|discriminate].
    destruct (store_srcs env h1 t) as [[h2 vs']|] eqn:Et; [|discriminate]. injection E as <- <-.
    destruct (Hx _ _ _ OKx W EV Ex) as [X1 O1]. pose proof (aext_kinds _ _ X1) as S1.
    destruct (IH _ _ _ (Forall_okh_mono _ _ _ S1 OKt) (aext_wf _ _ X1) (Forall_rok_mono _ _ _ S1 EV) Et) as [X2 A2].
    split; [exact (aext_trans _ _ _ X1 X2)|].
    intros z [<- | Hz]; [exact (aext_rok _ _ _ X2 O1) | exact (A2 z Hz)]. Qed.
Lemma store_kvs_aext env l : Forall (fun kv => src_aext env (snd kv)) l -> forall h h' vs,
  Forall (operand_okh h) (flat_map (fun kv => nsrc_operands (snd kv)) l) -> heap_wf h -> Forall (ref_ok h) env ->
  store_kvs env h l = Some (h', vs) -> aext h h' /\ all_ok h' (map snd vs).
Proof. induction 1 as [|[k x] t Hx _ IH]; intros h h' vs OK W EV E; cbn [store_kvs] in E.
  - injection E as <- <-. split; [apply aext_refl; exact W | apply all_ok_nil].
  - cbn [flat_map snd] in OK, Hx. apply Forall_app in OK as [OKx OKt].
    destruct (store_src env h x) as [[h1 v]|] eqn:Ex; [|discriminate].
    destruct (store_kvs env h1 t) as [[h2 vs']|] eqn:Et; [|discriminate]. injection E as <- <-.
    destruct (Hx _ _ _ OKx W EV Ex) as [X1 O1]. pose proof (aext_kinds _ _ X1) as S1.
    destruct (IH _ _ _ (Forall_okh_mono _ _ _ S1 OKt) (aext_wf _ _ X1) (Forall_rok_mono _ _ _ S1 EV) Et) as [X2 A2].
    split; [exact (aext_trans _ _ _ X1 X2)|].
    apply aset_ok; [exact A2 | exact (aext_rok _ _ _ X2 O1)]. Qed.

Lemma store_src_aext env : forall n, src_aext env n.
Proof. induction n as [o|l IH|kvs IH] using nsrc_ind'; intros h h' v OK W EV E.
  - rewrite store_src_op in E. destruct (eval_operand env o) as [x|] eqn:Eo; [|discriminate]. injection E as <- <-.
    split; [apply aext_refl; exact W | exact (eval_operand_ok _ _ _ _ (Forall_inv OK) EV Eo)].
  - rewrite store_src_slice in E. rewrite nsrc_operands_slice in OK.
    destruct (store_srcs env h l) as [[h1 vs]|] eqn:El; [|discriminate]. injection E as <- <-.
    destruct (store_srcs_aext _ _ IH _ _ _ OK W EV El) as [X1 A1].
    split; [|apply new_list_ok]. exact (aext_trans _ _ _ X1 (aext_alloc _ (CList vs) (aext_wf _ _ X1) A1)).
  - rewrite store_src_map in E. rewrite nsrc_operands_map in OK.
    destruct (store_kvs env h kvs) as [[h1 vs]|] eqn:El; [|discriminate]. injection E as <- <-.
    destruct (store_kvs_aext _ _ IH _ _ _ OK W EV El) as [X1 A1].
    split; [|apply new_obj_ok]. exact (aext_trans _ _ _ X1 (aext_alloc _ (CObj vs) (aext_wf _ _ X1) A1)). Qed.

(* ================= SetTF / UnsetTF ================= *)
(* what the recursion of set_tf maintains: the stored value x reaches no container reachable from the current container v *)
Definition tf_inv (h : heap) (v x : hval) : Prop :=
  heap_wf h /\ heap_acyclic h /\ ref_ok h x /\ (forall r, Reach h v r -> ~ Reach h x r).

(* "allocate an empty container c0 (as y), link it into the current container id, go on inside it" *)
Lemma link_step h v id c c' c0 y x : tf_inv h v x -> Reach h v id -> nth_error h id = Some c -> same_kind c c' ->
  ((c0 = CList [] /\ y = HL (length h)) \/ (c0 = CObj [] /\ y = HO (length h))) ->
  (forall z, In z (members c') -> In z (members c) \/ z = HNil \/ z = y) ->
  tf_inv (upd (h ++ [c0]) id c') y x.
Proof. intros [W [A [OX D]]] Rid E K FR S.
  assert (L: id < length h) by (apply nth_error_Some; congruence).
  assert (M0: members c0 = []) by (destruct FR as [[-> _] | [-> _]]; reflexivity).
  assert (OY: ref_ok (h ++ [c0]) y).
  { destruct FR as [[-> ->] | [-> ->]]; [apply new_list_ok | apply new_obj_ok]. }
  assert (YV: y = HL (length h) \/ y = HO (length h)) by (destruct FR as [[_ ->] | [_ ->]]; [left | right]; reflexivity).
  assert (N0: nth_error (h ++ [c0]) (length h) = Some (CList []) \/ nth_error (h ++ [c0]) (length h) = Some (CObj [])).
  { rewrite nth_error_app_last. destruct FR as [[-> _] | [-> _]]; [left | right]; reflexivity. }
  assert (G1: grows h (h ++ [c0])) by (apply grows_alloc; [exact W | rewrite M0; apply all_ok_nil]).
  assert (A1: heap_acyclic (h ++ [c0])) by (apply acyclic_alloc; [exact W | exact A | rewrite M0; apply all_ok_nil]).
  destruct G1 as [W1 S1].
  assert (E1: nth_error (h ++ [c0]) id = Some c) by (rewrite nth_error_app1 by exact L; exact E).
  assert (M: all_ok (h ++ [c0]) (members c')).
  { intros z Hz. destruct (S z Hz) as [Hz0 | [-> | ->]]; [|exact I | exact OY].
    apply CloneProofs.ref_ok_app. exact (wf_members h id c W E z Hz0). }
  destruct (grows_upd (h ++ [c0]) id c c' W1 E1 K M) as [W2 S2].
  (* x reaches the same cells in all three heaps *)
  destruct (alloc_outside h x c0 0 (fun r Rr => reach_lt _ _ _ W OX Rr)) as [_ Q1].
  assert (NX: ~ Reach (h ++ [c0]) x id) by (intros R; apply Q1 in R; exact (D id Rid R)).
  destruct (write_outside (h ++ [c0]) x id c' 0 NX) as [_ Q2].
  split; [exact W2|]. split; [|split].
  - apply (acyclic_upd (h ++ [c0]) id c c' W1 A1 E1). intros z Hz.
    destruct (S z Hz) as [Hz0 | [-> | ->]]; [left; exact Hz0 | right; split; [exact I | apply scalar_no_reach; reflexivity] | right].
    split; [exact OY|]. intros R. pose proof (reach_fresh_empty _ _ N0 _ _ R YV). lia.
  - exact (rok_mono _ _ _ S2 (rok_mono _ _ _ S1 OX)).
  - intros r Ry Rx.
    assert (N2: nth_error (upd (h ++ [c0]) id c') (length h) = Some (CList []) \/
                nth_error (upd (h ++ [c0]) id c') (length h) = Some (CObj [])).
    { rewrite nth_error_upd_neq by lia. exact N0. }
    pose proof (reach_fresh_empty _ _ N2 _ _ Ry YV) as ->.
    apply Q2 in Rx. apply Q1 in Rx. pose proof (reach_lt _ _ _ W OX Rx). lia. Qed.

Lemma link_list_inv h id l l' c0 y x : tf_inv h (HL id) x -> get_list h id = Some l ->
  ((c0 = CList [] /\ y = HL (length h)) \/ (c0 = CObj [] /\ y = HO (length h))) ->
  (forall z, In z l' -> In z l \/ z = HNil \/ z = y) -> tf_inv (upd (h ++ [c0]) id (CList l')) y x.
Proof. intros INV G FR S. apply get_list_nth in G.
  exact (link_step h (HL id) id (CList l) (CList l') c0 y x INV (reach_l_self _ _) G I FR S). Qed.
Lemma link_obj_inv h id kvs kvs' c0 y x : tf_inv h (HO id) x -> get_obj h id = Some kvs ->
  ((c0 = CList [] /\ y = HL (length h)) \/ (c0 = CObj [] /\ y = HO (length h))) ->
  (forall z, In z (map snd kvs') -> In z (map snd kvs) \/ z = y) -> tf_inv (upd (h ++ [c0]) id (CObj kvs')) y x.
Proof. intros INV G FR S. apply get_obj_nth in G.
  apply (link_step h (HO id) id (CObj kvs) (CObj kvs') c0 y x INV (reach_o_self _ _) G I FR).
  intros z Hz. destruct (S z Hz) as [H | H]; [left; exact H | right; right; exact H]. Qed.

Lemma tf_inv_follow h v cv x : (forall r, Reach h cv r -> Reach h v r) -> tf_inv h v x -> tf_inv h cv x.
Proof. intros F [W [A [OX D]]]. split; [exact W|]. split; [exact A|]. split; [exact OX|]. intros r R. exact (D r (F r R)). Qed.

Ltac atf_same E INV := injection E as <- <-; exact (proj1 (proj2 INV)).
Ltac atf_alloc E INV := injection E as <- <-; apply acyclic_alloc; [exact (proj1 INV) | exact (proj1 (proj2 INV)) | apply all_ok_nil].

Lemma set_tf_acyclic : forall fuel h v tf x h' p, tf_inv h v x -> set_tf fuel h v tf x = (h', p) -> heap_acyclic h'.
Proof. induction fuel as [|f IH]; intros h v tf x h' p INV E; [rewrite set_tf_0 in E; atf_same E INV|].
  pose proof INV as [W [A [OX D]]].
  rewrite set_tf_S in E. unfold alloc, set_list, set_obj in E. cbv beta iota zeta in E.
  destruct v as [| | | | |id|id]; try (atf_same E INV).
  - destruct (get_list h id) as [l|] eqn:G; [|atf_same E INV].
    destruct (valid_head x23 tf) as [rest|]; [|atf_same E INV].
    destruct (split_tf rest) as [d|d|].
    + destruct (pint0 (firstn d rest)) as [i|]; [|atf_same E INV].
      destruct (Z.of_nat (length l) <=? i)%Z.
      { refine (IH _ _ _ _ _ _ _ E). apply (link_list_inv h id l _ (CObj []) (HO (length h)) x INV G); [right; split; reflexivity|].
        intros z Hz. exact (In_pad_add _ _ _ _ Hz). }
      destruct (l_typeof l i); destruct (l_get l i) as [[| | | | |o|o]|] eqn:LG;
        try (match type of E with context [l_replace ?a ?b ?c] => destruct (l_replace a b c) as [l'|] eqn:LR end;
             [ refine (IH _ _ _ _ _ _ _ E);
               apply (link_list_inv h id l _ (CObj []) (HO (length h)) x INV G); [right; split; reflexivity|];
               intros w0 Hw0; destruct (l_replace_In _ _ _ _ _ LR Hw0) as [Hz1|Hz1]; [left; exact Hz1 | right; right; exact Hz1]
             | atf_alloc E INV ]).
      refine (IH _ _ _ _ _ _ _ E). apply (tf_inv_follow h (HL id)); [|exact INV].
      exact (reach_list_member _ _ _ _ G (l_get_In _ _ _ LG)).
    + destruct (pint0 (firstn d rest)) as [i|]; [|atf_same E INV].
      destruct (Z.of_nat (length l) <=? i)%Z.
      { refine (IH _ _ _ _ _ _ _ E). apply (link_list_inv h id l _ (CList []) (HL (length h)) x INV G); [left; split; reflexivity|].
        intros z Hz. exact (In_pad_add _ _ _ _ Hz). }
      destruct (l_typeof l i); destruct (l_get l i) as [[| | | | |o|o]|] eqn:LG;
        try (match type of E with context [l_replace ?a ?b ?c] => destruct (l_replace a b c) as [l'|] eqn:LR end;
             [ refine (IH _ _ _ _ _ _ _ E);
               apply (link_list_inv h id l _ (CList []) (HL (length h)) x INV G); [left; split; reflexivity|];
               intros w0 Hw0; destruct (l_replace_In _ _ _ _ _ LR Hw0) as [Hz1|Hz1]; [left; exact Hz1 | right; right; exact Hz1]
             | atf_alloc E INV ]).
      refine (IH _ _ _ _ _ _ _ E). apply (tf_inv_follow h (HL id)); [|exact INV].
      exact (reach_list_member _ _ _ _ G (l_get_In _ _ _ LG)).
    + destruct (pint0 rest) as [i|]; [|atf_same E INV].
      assert (NX: ref_ok h x /\ ~ Reach h x id) by (split; [exact OX | exact (D id (reach_l_self _ _))]).
      destruct (Z.of_nat (length l) <=? i)%Z.
      { injection E as <- <-. apply (acy_set_list h id l _ W A G). intros z Hz.
        destruct (In_pad_add _ _ _ _ Hz) as [H | [-> | ->]];
          [left; exact H | right; split; [exact I | apply scalar_no_reach; reflexivity] | right; exact NX]. }
      destruct (l_replace l i x) as [l'|] eqn:LR; [|atf_same E INV].
      injection E as <- <-. apply (acy_set_list h id l _ W A G). intros z Hz.
      destruct (l_replace_In _ _ _ _ _ LR Hz) as [H | ->]; [left; exact H | right; exact NX].
  - destruct (get_obj h id) as [kvs|] eqn:G; [|atf_same E INV].
    destruct (valid_head x2e tf) as [rest|]; [|atf_same E INV].
    destruct (split_tf rest) as [d|d|].
    + destruct (alookup (firstn d rest) kvs) as [[| | | | |o|o]|] eqn:AL;
        try (refine (IH _ _ _ _ _ _ _ E);
             apply (link_obj_inv h id kvs _ (CObj []) (HO (length h)) x INV G); [right; split; reflexivity|];
             intros w0 Hw0; exact (In_aset_snd _ _ _ _ Hw0)).
      refine (IH _ _ _ _ _ _ _ E). apply (tf_inv_follow h (HO id)); [|exact INV].
      exact (reach_obj_member _ _ _ _ _ G (alookup_In _ _ _ AL)).
    + destruct (alookup (firstn d rest) kvs) as [[| | | | |o|o]|] eqn:AL;
        try (refine (IH _ _ _ _ _ _ _ E);
             apply (link_obj_inv h id kvs _ (CList []) (HL (length h)) x INV G); [left; split; reflexivity|];
             intros w0 Hw0; exact (In_aset_snd _ _ _ _ Hw0)).
      refine (IH _ _ _ _ _ _ _ E). apply (tf_inv_follow h (HO id)); [|exact INV].
      exact (reach_obj_member _ _ _ _ _ G (alookup_In _ _ _ AL)).
    + injection E as <- <-. apply (acy_set_obj h id kvs _ W A G). intros z Hz.
      destruct (In_aset_snd _ _ _ _ Hz) as [H | ->]; [left; exact H | right].
      split; [exact OX | exact (D id (reach_o_self _ _))]. Qed.

Ltac utf_same E A := injection E as <- <-; exact A.
Lemma unset_tf_acyclic : forall fuel h v tf h' p, heap_wf h -> heap_acyclic h -> unset_tf fuel h v tf = (h', p) -> heap_acyclic h'.
Proof. induction fuel as [|f IH]; intros h v tf h' p W A E; [rewrite unset_tf_0 in E; utf_same E A|].
  rewrite unset_tf_S in E. unfold set_list, set_obj in E.
  destruct v as [| | | | |id|id]; try (utf_same E A).
  - destruct (get_list h id) as [l|] eqn:G; [|utf_same E A].
    destruct (valid_head x23 tf) as [rest|]; [|utf_same E A].
    destruct (split_tf rest) as [d|d|].
    + destruct (pint0 (firstn d rest)) as [i|]; [|utf_same E A].
      destruct (l_get l i) as [[| | | | |o|o]|]; try (utf_same E A). exact (IH _ _ _ _ _ W A E).
    + destruct (pint0 (firstn d rest)) as [i|]; [|utf_same E A].
      destruct (l_get l i) as [[| | | | |o|o]|]; try (utf_same E A). exact (IH _ _ _ _ _ W A E).
    + destruct (pint0 rest) as [i|]; [|utf_same E A].
      destruct (l_delete l [i]) as [l' p'] eqn:LD. injection E as <- <-. apply (acy_sub_list h id l _ W A G).
      intros z Hz. apply (l_delete_In l [i]). rewrite LD. exact Hz.
  - destruct (get_obj h id) as [kvs|] eqn:G; [|utf_same E A].
    destruct (valid_head x2e tf) as [rest|]; [|utf_same E A].
    destruct (split_tf rest) as [d|d|].
    + destruct (o_get kvs (firstn d rest)) as [[| | | | |o|o]|]; try (utf_same E A). exact (IH _ _ _ _ _ W A E).
    + destruct (o_get kvs (firstn d rest)) as [[| | | | |o|o]|]; try (utf_same E A). exact (IH _ _ _ _ _ W A E).
    + injection E as <- <-. apply (acy_sub_obj h id kvs _ W A G). intros z Hz. exact (aremove_In_snd _ _ _ Hz). Qed.

(* ================= 3. the storing discipline ================= *)

Lemma store_okb_spec h id x : heap_wf h -> heap_acyclic h -> ref_ok h x -> store_okb h id x = true -> ~ Reach h x id.
Proof. intros W A OX H R. unfold store_okb in H. apply andb_true_iff in H as [_ H]. apply negb_true_iff in H.
  rewrite (reachb_complete_gen h x id R) in H. discriminate. Qed.
(* scalars are always fine *)
Lemma store_okb_scalar h id x : is_ref x = false -> store_okb h id x = true.
Proof. destruct x; try discriminate; reflexivity. Qed.
Lemma tf_store_okb_spec h root x : heap_wf h -> heap_acyclic h -> ref_ok h root -> ref_ok h x -> tf_store_okb h root x = true ->
  forall id, Reach h root id -> ~ Reach h x id.
Proof. intros W A OR OX H id R1 R2. unfold tf_store_okb in H. apply andb_true_iff in H as [_ H].
  rewrite forallb_forall in H. assert (L: id < length h) by exact (reach_lt _ _ _ W OR R1).
  assert (I: In id (seq 0 (length h))) by (apply in_seq; lia).
  specialize (H id I). rewrite (reachb_complete_gen h root id R1), (reachb_complete_gen h x id R2) in H. discriminate. Qed.
Lemma tf_store_okb_scalar h root x : is_ref x = false -> tf_store_okb h root x = true.
Proof. intros SC. unfold tf_store_okb. assert (E: same_cont x root = false) by (destruct x; try discriminate; reflexivity).
  rewrite E. cbn [negb andb]. apply forallb_forall. intros id _.
  assert (E2: reachb (S (length h)) h x id = false) by (destruct x; try discriminate; reflexivity).
  rewrite E2, andb_false_r. reflexivity. Qed.

(* ---------- what the sequence-level operations can put into a cell (the members, not only their well-formedness) ---------- *)
Lemma o_set_pairs_In z : forall n args, length args <= n -> forall kvs,
  In z (map snd (fst (o_set_pairs kvs args))) -> In z (map snd kvs) \/ In z args.
Proof. induction n as [|n IH]; intros args L kvs H.
  - destruct args; [left; exact H | cbn [length] in L; lia].
  - destruct args as [|a [|v t]]; [left; exact H | destruct a; left; exact H |].
    destruct a; try (left; exact H). cbn [o_set_pairs] in H.
    assert (L': length t <= n) by (cbn [length] in L; lia).
    destruct (IH t L' _ H) as [H1|H1].
    + apply In_aset_snd in H1 as [H1 | ->]; [left; exact H1 | right; right; left; reflexivity].
    + right. right. right. exact H1. Qed.
Lemma o_set_In z kvs args : In z (map snd (fst (o_set kvs args))) -> In z (map snd kvs) \/ In z args.
Proof. unfold o_set. destruct (Nat.odd (length args)); [intros H; left; exact H|]. exact (o_set_pairs_In z _ args (le_n _) kvs). Qed.
Lemma merge_In z : forall (kvs2 kvs1 : list (bytes * hval)),
  In z (map snd (fold_left (fun acc kv => aset (fst kv) (snd kv) acc) kvs2 kvs1)) -> In z (map snd kvs1) \/ In z (map snd kvs2).
Proof. induction kvs2 as [|[k x] t IH]; intros kvs1 H; cbn [fold_left] in H; [left; exact H|].
  destruct (IH _ H) as [H1|H1].
  - cbn [fst snd] in H1. apply In_aset_snd in H1 as [H1 | ->]; [left; exact H1 | right; left; reflexivity].
  - right. right. exact H1. Qed.
Lemma l_sort_scalar l l' z : l_sort l = Ok l' -> In z l' -> is_ref z = false.
Proof. unfold l_sort. destruct (sort_model (map val_of_hscalar l)) as [s|]; [|discriminate]. intros E. injection E as <-.
  intros Hz. apply in_map_iff in Hz as [v [<- _]]. destruct v; reflexivity. Qed.

(* ================= one operation of Heap.v ================= *)
Ltac acy_obs A :=
  solve [ repeat first
    [ exact A
    | match goal with
      | |- heap_acyclic (st_heap (fst (match ?x with _ => _ end))) =>
          lazymatch x with
          | reg_list _ _ => destruct x as [[? ?]|]
          | reg_obj _ _ => destruct x as [[? ?]|]
          | _ => destruct x
          end
      end ] ].
Ltac to_heap := unfold alloc; cbv beta iota zeta; cbn [fst with_heap st_heap].

Lemma step_core_acyclic s o : op_okh (st_heap s) o -> state_wf s -> heap_acyclic (st_heap s) ->
  stores_okb s (Base o) = true -> heap_acyclic (st_heap (fst (step_core s o))).
Proof. intros OK SW A SO. pose proof SW as [W EV].
  destruct o; unfold op_okh in OK; cbn [op_operands] in OK; cbn [stores_okb] in SO; cbn [step_core]; try (acy_obs A).
  - (* NewList *)
    destruct (eval_operands (st_env s) vs) as [l|] eqn:EO; [|exact A]. to_heap.
    apply acyclic_alloc; [exact W | exact A | exact (eval_operands_ok _ _ _ _ OK EV EO)].
  - (* NewListOf *)
    destruct (eval_operand (st_env s) v) as [x|] eqn:EO; [|exact A].
    destruct (count <? 0)%Z; [exact A|]. to_heap. apply acyclic_alloc; [exact W | exact A |]. cbn [members].
    intros z Hz. apply In_repeat_list in Hz. subst z. exact (eval_operand_ok _ _ _ _ (Forall_inv OK) EV EO).
  - (* NewObject *)
    destruct (eval_operands (st_env s) args) as [a|] eqn:EO; [|exact A].
    destruct (o_set [] a) as [kvs p] eqn:OS. destruct p; [exact A|]. to_heap.
    apply acyclic_alloc; [exact W | exact A |]. cbn [members].
    pose proof (o_set_ok (st_heap s) [] a (eval_operands_ok _ _ _ _ OK EV EO) (all_ok_nil _)) as K. rewrite OS in K. exact K.
  - (* LAdd *)
    destruct (reg_list s r) as [[id l]|] eqn:RL; [|exact A].
    destruct (eval_operands (st_env s) vs) as [xs|] eqn:EO; [|exact A]. to_heap.
    apply (acy_set_list _ id l _ W A (reg_list_get _ _ _ _ RL)). intros z Hz.
    apply in_app_or in Hz as [Hz|Hz]; [left; exact Hz | right]. rewrite forallb_forall in SO.
    pose proof (eval_operands_ok _ _ _ _ OK EV EO z Hz) as OZ. split; [exact OZ | exact (store_okb_spec _ _ _ W A OZ (SO z Hz))].
  - (* LInsert *)
    destruct (reg_list s r) as [[id l]|] eqn:RL; [|exact A].
    destruct (eval_operand (st_env s) v) as [x|] eqn:EO; [|exact A].
    destruct (l_insert l i x) as [l'|] eqn:LI; [|exact A]. to_heap.
    apply (acy_set_list _ id l _ W A (reg_list_get _ _ _ _ RL)). intros z Hz.
    destruct (l_insert_In _ _ _ _ _ LI Hz) as [H | ->]; [left; exact H | right].
    pose proof (eval_operand_ok _ _ _ _ (Forall_inv OK) EV EO) as OZ. split; [exact OZ | exact (store_okb_spec _ _ _ W A OZ SO)].
  - (* LReplace *)
    destruct (reg_list s r) as [[id l]|] eqn:RL; [|exact A].
    destruct (eval_operand (st_env s) v) as [x|] eqn:EO; [|exact A].
    destruct (l_replace l i x) as [l'|] eqn:LI; [|exact A]. to_heap.
    apply (acy_set_list _ id l _ W A (reg_list_get _ _ _ _ RL)). intros z Hz.
    destruct (l_replace_In _ _ _ _ _ LI Hz) as [H | ->]; [left; exact H | right].
    pose proof (eval_operand_ok _ _ _ _ (Forall_inv OK) EV EO) as OZ. split; [exact OZ | exact (store_okb_spec _ _ _ W A OZ SO)].
  - (* LDelete *)
    destruct (reg_list s r) as [[id l]|] eqn:RL; [|exact A].
    destruct (l_delete l idxs) as [l' p] eqn:LD. to_heap.
    apply (acy_sub_list _ id l _ W A (reg_list_get _ _ _ _ RL)). intros z Hz. apply (l_delete_In l idxs). rewrite LD. exact Hz.
  - (* LPop *)
    destruct (reg_list s r) as [[id l]|] eqn:RL; [|exact A].
    destruct (l_pop l) as [l' p] eqn:LD. to_heap.
    apply (acy_sub_list _ id l _ W A (reg_list_get _ _ _ _ RL)). intros z Hz. unfold l_pop in LD.
    apply (l_delete_In l [(Z.of_nat (length l) - 1)%Z]). rewrite LD. exact Hz.
  - (* LClear *)
    destruct (reg_list s r) as [[id l]|] eqn:RL; [|exact A]. to_heap.
    apply (acy_sub_list _ id l _ W A (reg_list_get _ _ _ _ RL)). intros z [].
  - (* LReverse *)
    destruct (reg_list s r) as [[id l]|] eqn:RL; [|exact A]. to_heap.
    apply (acy_sub_list _ id l _ W A (reg_list_get _ _ _ _ RL)). intros z Hz. exact (reverse_model_In _ _ Hz).
  - (* LSort *)
    destruct (reg_list s r) as [[id l]|] eqn:RL; [|exact A].
    destruct (l_sort l) as [l'|] eqn:LS; [|exact A]. to_heap.
    apply (acy_set_list _ id l _ W A (reg_list_get _ _ _ _ RL)). intros z Hz. right.
    split; [exact (l_sort_ok _ _ _ LS z Hz) | exact (scalar_no_reach _ _ _ (l_sort_scalar _ _ _ LS Hz))].
  - (* LSubList *)
    destruct (reg_list s r) as [[id l]|] eqn:RL; [|exact A].
    destruct (l_sublist l s0 e) as [l'|] eqn:LS; [|exact A]. to_heap.
    apply acyclic_alloc; [exact W | exact A |]. cbn [members].
    intros z Hz. exact (reg_list_ok _ _ _ _ W RL z (l_sublist_In _ _ _ _ _ LS Hz)).
  - (* LConcat *)
    destruct (reg_list s r) as [[id l]|] eqn:RL; [|exact A].
    destruct (reg_list s a) as [[id2 l2]|] eqn:RL2; [|exact A]. to_heap.
    apply acyclic_alloc; [exact W | exact A |]. cbn [members].
    apply all_ok_app; [exact (reg_list_ok _ _ _ _ W RL) | exact (reg_list_ok _ _ _ _ W RL2)].
  - (* OSet *)
    destruct (reg_obj s r) as [[id kvs]|] eqn:RO; [|exact A].
    destruct (eval_operands (st_env s) args) as [a|] eqn:EO; [|exact A].
    destruct (o_set kvs a) as [kvs' p] eqn:OS. to_heap.
    apply (acy_set_obj _ id kvs _ W A (reg_obj_get _ _ _ _ RO)). intros z Hz.
    assert (Hz': In z (map snd (fst (o_set kvs a)))) by (rewrite OS; exact Hz).
    apply o_set_In in Hz' as [H|H]; [left; exact H | right]. rewrite forallb_forall in SO.
    pose proof (eval_operands_ok _ _ _ _ OK EV EO z H) as OZ. split; [exact OZ | exact (store_okb_spec _ _ _ W A OZ (SO z H))].
  - (* OUnset *)
    destruct (reg_obj s r) as [[id kvs]|] eqn:RO; [|exact A]. to_heap.
    apply (acy_sub_obj _ id kvs _ W A (reg_obj_get _ _ _ _ RO)). intros z Hz. exact (o_unset_In _ _ _ Hz).
  - (* OClear *)
    destruct (reg_obj s r) as [[id kvs]|] eqn:RO; [|exact A]. to_heap.
    apply (acy_sub_obj _ id kvs _ W A (reg_obj_get _ _ _ _ RO)). intros z [].
  - (* OMerge: the receiver's clone is a fresh cell; the other object's values are old *)
    destruct (reg_obj s r) as [[id kvs]|] eqn:RO; [|exact A].
    destruct (reg_obj s a) as [[id2 kvs2]|] eqn:RO2; [|exact A].
    destruct (nth_error (st_env s) r) as [recv|] eqn:NE; [|exact A].
    destruct (clone_val (fuel_of (st_heap s)) (st_heap s) recv) as [[h1 v']|] eqn:C; [|exact A].
    destruct v' as [| | | | |id'|id']; try exact A.
    destruct (get_obj h1 id') as [kvs1|] eqn:G1; [|exact A]. to_heap.
    destruct (clone_aext _ _ _ _ _ W (env_ok _ _ _ _ EV NE) C) as [X1 O1].
    apply (acy_set_obj h1 id' kvs1 _ (aext_wf _ _ X1) (proj2 X1 A) G1). intros z Hz.
    apply merge_In in Hz as [H|H]; [left; exact H | right].
    pose proof (reg_obj_ok _ _ _ _ W RO2 z H) as OZ. split; [exact (aext_rok _ _ _ X1 OZ)|]. intros R.
    pose proof (clone_fresh _ _ _ _ _ id' C (reach_o_self _ _)) as L1.
    destruct (clone_val_extends _ _ _ _ _ C) as [e ->]. pose proof (source_old _ _ _ _ W OZ R). lia.
  - (* OPluck *)
    destruct (reg_obj s r) as [[id kvs]|] eqn:RO; [|exact A].
    match goal with |- heap_acyclic (st_heap (fst (match ?x with _ => _ end))) => destruct x as [res|] eqn:FL end; [|exact A].
    to_heap. apply acyclic_alloc; [exact W | exact A |]. cbn [members].
    refine (pluck_ok _ kvs (reg_obj_ok _ _ _ _ W RO) keys (Some []) res _ FL). intros r0 E0. injection E0 as <-. apply all_ok_nil.
  - (* OKeys *)
    destruct (reg_obj s r) as [[id kvs]|] eqn:RO; [|exact A].
    destruct (in_order kvs order) as [okvs|] eqn:IO; [|exact A]. to_heap.
    apply acyclic_alloc; [exact W | exact A |]. cbn [members]. intros z Hz. apply in_map_iff in Hz as [kv [<- _]]. exact I.
  - (* OValues *)
    destruct (reg_obj s r) as [[id kvs]|] eqn:RO; [|exact A].
    destruct (in_order kvs order) as [okvs|] eqn:IO; [|exact A]. to_heap.
    apply acyclic_alloc; [exact W | exact A |]. cbn [members].
    intros z Hz. exact (reg_obj_ok _ _ _ _ W RO z (in_order_In _ _ _ _ IO Hz)).
  - (* Clone *)
    destruct (nth_error (st_env s) r) as [v|] eqn:NE; [|exact A].
    destruct (clone_val (fuel_of (st_heap s)) (st_heap s) v) as [[h1 v']|] eqn:C; [|exact A]. to_heap.
    destruct (clone_aext _ _ _ _ _ W (env_ok _ _ _ _ EV NE) C) as [X1 _]. exact (proj2 X1 A).
  - (* SetTF *)
    destruct (nth_error (st_env s) r) as [rv|] eqn:NE; [|exact A].
    destruct (eval_operand (st_env s) v) as [xv|] eqn:EO; [|exact A].
    destruct (set_tf (S (length tf)) (st_heap s) rv tf xv) as [h1 p] eqn:ST. to_heap.
    pose proof (eval_operand_ok _ _ _ _ (Forall_inv OK) EV EO) as OX.
    apply (set_tf_acyclic _ _ _ _ _ _ _ (conj W (conj A (conj OX (tf_store_okb_spec _ _ _ W A (env_ok _ _ _ _ EV NE) OX SO)))) ST).
  - (* UnsetTF *)
    destruct (nth_error (st_env s) r) as [rv|] eqn:NE; [|exact A].
    destruct (unset_tf (S (length tf)) (st_heap s) rv tf) as [h1 p] eqn:ST. to_heap.
    exact (unset_tf_acyclic _ _ _ _ _ _ W A ST).
Qed.

(* ================= the operations of HeapExt.v ================= *)
Lemma acy_new_list s h1 l : aext (st_heap s) h1 -> heap_acyclic (st_heap s) -> all_ok h1 l ->
  heap_acyclic (st_heap (fst (new_list s h1 l))).
Proof. intros X A AL. unfold new_list. to_heap. exact (acyclic_alloc h1 (CList l) (aext_wf _ _ X) (proj2 X A) AL). Qed.
Lemma acy_new_obj s h1 kvs : aext (st_heap s) h1 -> heap_acyclic (st_heap s) -> all_ok h1 (map snd kvs) ->
  heap_acyclic (st_heap (fst (new_obj s h1 kvs))).
Proof. intros X A AL. unfold new_obj. to_heap. exact (acyclic_alloc h1 (CObj kvs) (aext_wf _ _ X) (proj2 X A) AL). Qed.

Lemma xstep_core_acyclic fadd fmul fdiv of_int s o : xop_okh (st_heap s) o -> state_wf s -> heap_acyclic (st_heap s) ->
  stores_okb s o = true -> heap_acyclic (st_heap (fst (xstep_core fadd fmul fdiv of_int s o))).
Proof. intros OK SW A SO. pose proof SW as [W EV].
  assert (XR: aext (st_heap s) (st_heap s)) by (apply aext_refl; exact W).
  destruct o; unfold xop_okh in OK; cbn [xop_operands] in OK; cbn [xstep_core]; try (acy_obs A).
  - (* Base *)
    pose proof (step_core_acyclic s o OK SW A SO) as G. destruct (step_core s o) as [s1 oc]. exact G.
  - (* NewListFrom *)
    destruct (store_src (st_env s) (st_heap s) (NSlice src)) as [[h1 v]|] eqn:E; [|exact A].
    destruct (store_src_aext _ _ _ _ _ OK W EV E) as [X _]. exact (proj2 X A).
  - (* NewObjectFrom *)
    destruct (store_src (st_env s) (st_heap s) (NMap src)) as [[h1 v]|] eqn:E; [|exact A].
    destruct (store_src_aext _ _ _ _ _ OK W EV E) as [X _]. exact (proj2 X A).
  - (* LFilter *)
    destruct (reg_list s r) as [[id l]|] eqn:RL; [|exact A].
    apply acy_new_list; [exact XR | exact A |]. intros z Hz. exact (reg_list_ok _ _ _ _ W RL z (filter_loop_In _ _ _ Hz)).
  - (* LFilterK *)
    destruct (reg_list s r) as [[id l]|] eqn:RL; [|exact A].
    apply acy_new_list; [exact XR | exact A |]. intros z Hz. exact (reg_list_ok _ _ _ _ W RL z (filter_loop_In _ _ _ Hz)).
  - (* LMap *)
    destruct (reg_list s r) as [[id l]|] eqn:RL; [|exact A].
    match goal with |- context [let '(_, _) := ?x in _] => destruct x as [h1 res] eqn:ML end.
    eapply map_loop_aext in ML; [destruct ML as [X AL]; apply acy_new_list; assumption | ..];
      first [intros; exact I | exact W | exact (reg_list_ok _ _ _ _ W RL) | apply all_ok_nil].
  - (* LMapValues *)
    destruct (reg_list s r) as [[id l]|] eqn:RL; [|exact A].
    match goal with |- context [let '(_, _) := ?x in _] => destruct x as [h1 res] eqn:ML end.
    eapply map_loop_aext in ML; [destruct ML as [X AL]; apply acy_new_list; assumption | ..];
      first [intros; exact I | exact W | exact (reg_list_ok _ _ _ _ W RL) | apply all_ok_nil].
  - (* LMapK *)
    destruct (reg_list s r) as [[id l]|] eqn:RL; [|exact A].
    match goal with |- context [let '(_, _) := ?x in _] => destruct x as [h1 res] eqn:ML end.
    eapply map_loop_aext in ML; [destruct ML as [X AL]; apply acy_new_list; assumption | ..];
      first [intros; exact I | exact W | exact (reg_list_ok _ _ _ _ W RL) | apply all_ok_nil].
  - (* LMapAsync *)
    destruct (reg_list s r) as [[id l]|] eqn:RL; [|exact A].
    match goal with |- context [let '(_, _) := ?x in _] => destruct x as [h1 res] eqn:ML end.
    eapply map_loop_aext in ML; [destruct ML as [X AL]; apply acy_new_list; assumption | ..];
      first [intros; exact I | exact W | exact (reg_list_ok _ _ _ _ W RL) | apply all_ok_nil].
  - (* OMap *)
    destruct (reg_obj s r) as [[id kvs]|] eqn:RO; [|exact A].
    match goal with |- context [let '(_, _) := ?x in _] => destruct x as [h1 res] eqn:ML end.
    eapply omap_loop_aext in ML; [destruct ML as [X AL]; apply acy_new_obj; assumption | ..];
      first [intros; exact I | exact W | exact (reg_obj_ok _ _ _ _ W RO) | apply all_ok_nil].
  - (* OMapValues *)
    destruct (reg_obj s r) as [[id kvs]|] eqn:RO; [|exact A].
    match goal with |- context [let '(_, _) := ?x in _] => destruct x as [h1 res] eqn:ML end.
    eapply omap_loop_aext in ML; [destruct ML as [X AL]; apply acy_new_obj; assumption | ..];
      first [intros; exact I | exact W | exact (reg_obj_ok _ _ _ _ W RO) | apply all_ok_nil].
  - (* OMapK *)
    destruct (reg_obj s r) as [[id kvs]|] eqn:RO; [|exact A].
    match goal with |- context [let '(_, _) := ?x in _] => destruct x as [h1 res] eqn:ML end.
    eapply omap_loop_aext in ML; [destruct ML as [X AL]; apply acy_new_obj; assumption | ..];
      first [intros; exact I | exact W | exact (reg_obj_ok _ _ _ _ W RO) | apply all_ok_nil].
  - (* OMapAsync *)
    destruct (reg_obj s r) as [[id kvs]|] eqn:RO; [|exact A].
    match goal with |- context [let '(_, _) := ?x in _] => destruct x as [h1 res] eqn:ML end.
    eapply omap_loop_aext in ML; [destruct ML as [X AL]; apply acy_new_obj; assumption | ..];
      first [intros; exact I | exact W | exact (reg_obj_ok _ _ _ _ W RO) | apply all_ok_nil].
Qed.

Lemma xstep_heap fadd fmul fdiv of_int s o :
  st_heap (fst (xstep fadd fmul fdiv of_int s o)) = st_heap (fst (xstep_core fadd fmul fdiv of_int s o)).
Proof. unfold xstep. destruct (xstep_core fadd fmul fdiv of_int s o) as [s1 oc].
  destruct oc as [[[| [| | | | |i|i] | | | | | |] | | |]|]; reflexivity. Qed.

(* ================= 3. the invariant ================= *)
Theorem acyclic_step : forall fadd fmul fdiv of_int s o, state_wf s -> heap_acyclic (st_heap s) -> xop_ok o ->
  stores_okb s o = true -> heap_acyclic (st_heap (fst (xstep fadd fmul fdiv of_int s o))).
Proof. intros fadd fmul fdiv of_int s o SW A OK SO. rewrite xstep_heap.
  exact (xstep_core_acyclic fadd fmul fdiv of_int s o (xop_ok_okh _ _ OK) SW A SO). Qed.

(* every step is literal-safe and satisfies the storing discipline in the state it is executed in *)

Lemma init_acyclic : heap_acyclic (st_heap init_state).
Proof. intros id [x [[c [E _]] _]]. cbn [init_state st_heap] in E. destruct id; discriminate. Qed.

Lemma run_acyclic fadd fmul fdiv of_int : forall prog s, run_okb fadd fmul fdiv of_int s prog = true ->
  state_wf s -> heap_acyclic (st_heap s) ->
  state_wf (xexec fadd fmul fdiv of_int s prog) /\ heap_acyclic (st_heap (xexec fadd fmul fdiv of_int s prog)).
Proof. unfold xexec. induction prog as [|o t IH]; intros s R SW A; cbn [fold_left]; [split; assumption|].
  cbn [run_okb] in R. apply andb_true_iff in R as [R R3]. apply andb_true_iff in R as [R1 R2].
  apply xop_okb_spec in R1. apply IH; [exact R3 | exact (xstep_wf _ _ _ _ _ _ R1 SW) | exact (acyclic_step _ _ _ _ _ _ SW A R1 R2)]. Qed.

Theorem reachable_acyclic : forall fadd fmul fdiv of_int prog, run_okb fadd fmul fdiv of_int init_state prog = true ->
  let s := xexec fadd fmul fdiv of_int init_state prog in
  state_wf s /\ heap_acyclic (st_heap s) /\ forall v, In v (st_env s) -> reify (S (length (st_heap s))) (st_heap s) v <> None.
Proof. intros fadd fmul fdiv of_int prog R s.
  destruct (run_acyclic fadd fmul fdiv of_int prog init_state R init_wf init_acyclic) as [SW A]. fold s in SW, A.
  split; [exact SW|]. split; [exact A|]. intros v Hv. exact (heap_acyclic_reify _ _ (proj1 SW) A (wf_var_ok _ _ SW Hv)). Qed.

(* ================= 4. non-vacuity ================= *)
Definition acy_prog : list xop :=
  [ Base (NewList [Lit (HInt 1)]);                             (* r0 = [1] *)
    Base (NewObject [Lit (HStr (B"k")); Reg 0]);                (* r1 = {k: r0}: nesting *)
    Base (NewList [Reg 0; Reg 0]);                              (* r2 = [r0, r0]: an alias stored twice *)
    Base (LAdd 2 [Reg 1; Reg 0]);                               (* r2 = [r0, r0, r1, r0]: stores into an existing list *)
    Base (NewList [Lit (HInt 7)]);                              (* r3 = [7] *)
    Base (SetTF 1 (B".p#2.q") (Reg 3));                         (* r1.p = [nil, nil, {q: r3}]: two fresh cells below r1 *)
    Base (Clone 2);                                             (* r4: deep copy of r2 *)
    XLMap 2 MPair;                                              (* r5 = [[0, r0], [1, r0], [2, r1], [3, r0]] *)
    Base (LInsert 4 0 (Reg 2));                                 (* the clone now holds the original *)
    Base (OSet 1 [Lit (HStr (B"m")); Reg 3]) ].                 (* r3 stored a second time, directly in r1 *)

Example acy_prog_ok : run_okb zero2 zero2 zero2 zero1 init_state acy_prog = true.
Proof. vm_compute. reflexivity. Qed.

(* it really runs: no step is ill-typed or panics *)
Example acy_prog_runs :
  forallb (fun r => match fst r with XRet (XO OBad) | XPan => false | _ => true end) (xrun zero2 zero2 zero2 zero1 init_state acy_prog) = true /\
  st_env (xexec zero2 zero2 zero2 zero1 init_state acy_prog) = [HL 0; HO 1; HL 2; HL 3; HL 14; HL 19].
Proof. vm_compute. split; reflexivity. Qed.

Example acy_prog_acyclic :
  let s := xexec zero2 zero2 zero2 zero1 init_state acy_prog in
  state_wf s /\ heap_acyclic (st_heap s) /\ forall v, In v (st_env s) -> reify (S (length (st_heap s))) (st_heap s) v <> None.
Proof. exact (reachable_acyclic zero2 zero2 zero2 zero1 acy_prog acy_prog_ok). Qed.

(* the counter-example: a list added to itself *)
Definition cyc_prog : list xop := [Base (NewList []); Base (LAdd 0 [Reg 0])].

Example cyc_prog_rejected : run_okb zero2 zero2 zero2 zero1 init_state cyc_prog = false.
Proof. vm_compute. reflexivity. Qed.
Example cyc_prog_cyclic : ~ heap_acyclic (st_heap (xexec zero2 zero2 zero2 zero1 init_state cyc_prog)).
Proof. intros A.
  assert (E: st_heap (xexec zero2 zero2 zero2 zero1 init_state cyc_prog) = [CList [HL 0]]) by (vm_compute; reflexivity).
  rewrite E in A. apply (A 0). exists (HL 0). split; [|apply reach_l_self].
  exists (CList [HL 0]). split; [reflexivity | left; reflexivity]. Qed.
(* ... and indeed it no longer reads as a tree, at any fuel *)
Example cyc_prog_no_tree : forall f, reify f [CList [HL 0]] (HL 0) = None.
Proof. induction f as [|f IH]; [reflexivity|]. rewrite reify_S. cbn [get_list nth_error reify_list]. rewrite IH. reflexivity. Qed.

(* the same through SetTF: r0.a.b := r0 closes a cycle through the fresh intermediate object, and is rejected *)
Definition cyc_tf_prog : list xop := [Base (NewObject []); Base (SetTF 0 (B".a.b") (Reg 0))].
Example cyc_tf_prog_rejected : run_okb zero2 zero2 zero2 zero1 init_state cyc_tf_prog = false.
Proof. vm_compute. reflexivity. Qed.
Example cyc_tf_prog_cyclic : ~ heap_acyclic (st_heap (xexec zero2 zero2 zero2 zero1 init_state cyc_tf_prog)).
Proof. intros A.
  assert (E: st_heap (xexec zero2 zero2 zero2 zero1 init_state cyc_tf_prog) = [CObj [(B"a", HO 1)]; CObj [(B"b", HO 0)]])
    by (vm_compute; reflexivity).
  rewrite E in A. apply (A 0). exists (HO 1). split.
  - exists (CObj [(B"a", HO 1)]). split; [reflexivity | left; reflexivity].
  - apply (reach_o_field _ 1 [(B"b", HO 0)] (B"b") (HO 0) 0); [reflexivity | left; reflexivity | apply reach_o_self]. Qed.
(* a scalar stored by SetTF is always accepted, whatever the receiver *)
Example tf_scalar_always_ok : forall s r tf z, stores_okb s (Base (SetTF r tf (Lit (HInt z)))) = true.
Proof. intros s r tf z. cbn [stores_okb eval_operand]. destruct (nth_error (st_env s) r); [|reflexivity].
  apply tf_store_okb_scalar. reflexivity. Qed.

Print Assumptions reachb_sound.
Print Assumptions reachb_complete.
Print Assumptions reachb_complete_gen.
Print Assumptions heap_acyclic_reify.
Print Assumptions heap_acyclic_reify_ex.
Print Assumptions acyclic_step.
Print Assumptions reachable_acyclic.
Print Assumptions acy_prog_ok.
Print Assumptions acy_prog_acyclic.
Print Assumptions cyc_prog_rejected.
Print Assumptions cyc_prog_cyclic.
Print Assumptions cyc_tf_prog_rejected.
Print Assumptions cyc_tf_prog_cyclic.
