(* Footprint.v — the footprint of every mutator of the heap model: a mutator applied to a receiver changes no cell
   outside what is reachable from the receiver (and only appends new cells).  Consequently any value that shares no
   container with the receiver reads the same before and after. *)
From Anytype Require Import Base FloatBits Value GoInt Heap HeapProofs TreeFormProofs CloneProofs CloneHistory.
Local Open Scope nat_scope.
Arguments clone_val : simpl never.  Arguments reify : simpl never.
Arguments get_tf : simpl never.  Arguments typeof_tf : simpl never.
Arguments set_tf : simpl never.  Arguments unset_tf : simpl never.

Definition basic_mutator (o : op) : option nat :=      (* the receiver register of the method-style mutators *)
  match o with
  | LAdd r _ | LInsert r _ _ | LReplace r _ _ | LDelete r _ | LPop r | LClear r | LReverse r | LSort r
  | OSet r _ | OUnset r _ | OClear r => Some r
  | _ => None end.
Definition tf_mutator (o : op) : option nat := match o with SetTF r _ _ | UnsetTF r _ => Some r | _ => None end.

(* ================= (F1) a method-style mutator writes exactly one cell: the receiver's own ================= *)
Lemma reg_list_inv s r id l : reg_list s r = Some (id, l) ->
  nth_error (st_env s) r = Some (HL id) /\ id < length (st_heap s).
Proof. unfold reg_list. destruct (nth_error (st_env s) r) as [[| | | | |i|i]|]; try discriminate.
  destruct (get_list (st_heap s) i) as [l0|] eqn:G; [|discriminate]. intros E. injection E as <- <-.
  split; [reflexivity | exact (get_list_lt _ _ _ G)]. Qed.
Lemma reg_obj_inv s r id kvs : reg_obj s r = Some (id, kvs) ->
  nth_error (st_env s) r = Some (HO id) /\ id < length (st_heap s).
Proof. unfold reg_obj. destruct (nth_error (st_env s) r) as [[| | | | |i|i]|]; try discriminate.
  destruct (get_obj (st_heap s) i) as [l0|] eqn:G; [|discriminate]. intros E. injection E as <- <-.
  split; [reflexivity | exact (get_obj_lt _ _ _ G)]. Qed.

Definition one_write (s : state) (r : nat) (s' : state) : Prop :=
  st_env s' = st_env s /\
  (st_heap s' = st_heap s \/
   exists id c, (nth_error (st_env s) r = Some (HL id) \/ nth_error (st_env s) r = Some (HO id)) /\ id < length (st_heap s) /\
                st_heap s' = upd (st_heap s) id c).

Lemma one_write_same s r : one_write s r s.
Proof. split; [reflexivity | left; reflexivity]. Qed.
Lemma one_write_list s r id l l' : reg_list s r = Some (id, l) -> one_write s r (with_heap s (set_list (st_heap s) id l')).
Proof. intros E. destruct (reg_list_inv _ _ _ _ E) as [E1 L]. split; [reflexivity|]. right.
  exists id, (CList l'). split; [left; exact E1 | split; [exact L | reflexivity]]. Qed.
Lemma one_write_obj s r id kvs kvs' : reg_obj s r = Some (id, kvs) -> one_write s r (with_heap s (set_obj (st_heap s) id kvs')).
Proof. intros E. destruct (reg_obj_inv _ _ _ _ E) as [E1 L]. split; [reflexivity|]. right.
  exists id, (CObj kvs'). split; [right; exact E1 | split; [exact L | reflexivity]]. Qed.

Theorem basic_mutator_footprint : forall s o r, basic_mutator o = Some r ->
  st_env (fst (step_core s o)) = st_env s /\
  (st_heap (fst (step_core s o)) = st_heap s \/
   exists id c, (nth_error (st_env s) r = Some (HL id) \/ nth_error (st_env s) r = Some (HO id)) /\ id < length (st_heap s) /\
                st_heap (fst (step_core s o)) = upd (st_heap s) id c).
Proof. intros s o r B. change (one_write s r (fst (step_core s o))).
  destruct o; cbn [basic_mutator] in B; try discriminate; injection B as ->; cbn [step_core].
  - (* LAdd *) destruct (reg_list s r) as [[id l]|] eqn:E; [|apply one_write_same].
    destruct (eval_operands (st_env s) vs) as [xs|]; [|apply one_write_same].
    cbn [fst]. eapply one_write_list; exact E.
  - (* LInsert *) destruct (reg_list s r) as [[id l]|] eqn:E; [|apply one_write_same].
    destruct (eval_operand (st_env s) v) as [x|]; [|apply one_write_same].
    destruct (l_insert l i x) as [l'|]; [|apply one_write_same].
    cbn [fst]. eapply one_write_list; exact E.
  - (* LReplace *) destruct (reg_list s r) as [[id l]|] eqn:E; [|apply one_write_same].
    destruct (eval_operand (st_env s) v) as [x|]; [|apply one_write_same].
    destruct (l_replace l i x) as [l'|]; [|apply one_write_same].
    cbn [fst]. eapply one_write_list; exact E.
  - (* LDelete *) destruct (reg_list s r) as [[id l]|] eqn:E; [|apply one_write_same].
    destruct (l_delete l idxs) as [l' p]. cbn [fst]. eapply one_write_list; exact E.
  - (* LPop *) destruct (reg_list s r) as [[id l]|] eqn:E; [|apply one_write_same].
    destruct (l_pop l) as [l' p]. cbn [fst]. eapply one_write_list; exact E.
  - (* LClear *) destruct (reg_list s r) as [[id l]|] eqn:E; [|apply one_write_same].
    cbn [fst]. eapply one_write_list; exact E.
  - (* LReverse *) destruct (reg_list s r) as [[id l]|] eqn:E; [|apply one_write_same].
    cbn [fst]. eapply one_write_list; exact E.
  - (* LSort *) destruct (reg_list s r) as [[id l]|] eqn:E; [|apply one_write_same].
    destruct (l_sort l) as [l'|]; [|apply one_write_same].
    cbn [fst]. eapply one_write_list; exact E.
  - (* OSet *) destruct (reg_obj s r) as [[id kvs]|] eqn:E; [|apply one_write_same].
    destruct (eval_operands (st_env s) args) as [a|]; [|apply one_write_same].
    destruct (o_set kvs a) as [kvs' p]. cbn [fst]. eapply one_write_obj; exact E.
  - (* OUnset *) destruct (reg_obj s r) as [[id kvs]|] eqn:E; [|apply one_write_same].
    cbn [fst]. eapply one_write_obj; exact E.
  - (* OClear *) destruct (reg_obj s r) as [[id kvs]|] eqn:E; [|apply one_write_same].
    cbn [fst]. eapply one_write_obj; exact E.
Qed.

(* ================= (F2) a value from which the receiver is not reachable reads the same ================= *)
Theorem basic_mutator_independent : forall s o r vr w f, basic_mutator o = Some r -> nth_error (st_env s) r = Some vr ->
  (forall id, Reach (st_heap s) w id -> vr <> HL id /\ vr <> HO id) ->          (* the receiver is not reachable from w *)
  reify f (st_heap (fst (step_core s o))) w = reify f (st_heap s) w.
Proof. intros s o r vr w f B E NR.
  destruct (basic_mutator_footprint s o r B) as [_ [-> | [id [c [K [L ->]]]]]]; [reflexivity|].
  apply (write_outside (st_heap s) w id c f). intros R. destruct (NR _ R) as [N1 N2].
  destruct K as [K | K]; rewrite K in E; injection E as <-; [apply N1 | apply N2]; reflexivity. Qed.

(* ================= (F3) the tree-form writes, for arbitrary path strings ================= *)
(* [foot h v h']: h' extends h and agrees with it on every old cell that is not reachable (in h) from v *)
Definition foot (h : heap) (v : hval) (h' : heap) : Prop :=
  length h <= length h' /\ forall j, j < length h -> ~ Reach h v j -> nth_error h' j = nth_error h j.

Lemma foot_refl h v : foot h v h.
Proof. split; [lia | intros j _ _; reflexivity]. Qed.

Lemma foot_write h v id c : Reach h v id -> foot h v (upd h id c).
Proof. intros R. split; [rewrite upd_length; lia|]. intros j _ NR. apply nth_error_upd_neq. intros ->. exact (NR R). Qed.

Lemma foot_alloc_only h v c : foot h v (h ++ [c]).
Proof. split; [rewrite app_length; lia|]. intros j L _. apply nth_error_app1. exact L. Qed.

Lemma foot_follow h v cv h' : (forall r, Reach h cv r -> Reach h v r) -> foot h cv h' -> foot h v h'.
Proof. intros S [L F]. split; [exact L|]. intros j Lj NR. apply F; [exact Lj|]. intros R. exact (NR (S _ R)). Qed.

(* from a fresh empty cell nothing but the cell itself is reachable *)
Lemma reach_fresh_empty h o : (nth_error h o = Some (CList []) \/ nth_error h o = Some (CObj [])) ->
  forall v r, Reach h v r -> (v = HL o \/ v = HO o) -> r = o.
Proof. intros N v r R.
  induction R as [id|id|id l x r G I R IHR|id kvs k x r G I R IHR]; intros [E | E]; try discriminate; injection E as ->.
  - reflexivity.
  - reflexivity.
  - apply get_list_nth in G. destruct N as [N | N]; rewrite N in G; [|discriminate]. injection G as <-. destruct I.
  - apply get_obj_nth in G. destruct N as [N | N]; rewrite N in G; [discriminate|]. injection G as <-. destruct I.
Qed.

(* allocate an empty cell, link it into the current container [id], continue inside the new cell *)
Lemma foot_alloc h v id c0 c1 cv h' : Reach h v id -> id < length h ->
  (c0 = CList [] \/ c0 = CObj []) -> (cv = HL (length h) \/ cv = HO (length h)) ->
  foot (upd (h ++ [c0]) id c1) cv h' -> foot h v h'.
Proof. intros R Lid C0 CV [L F]. rewrite upd_length, app_length in L, F. cbn [length] in L, F. split; [lia|].
  intros j Lj NR.
  assert (N: nth_error (upd (h ++ [c0]) id c1) (length h) = Some (CList []) \/
             nth_error (upd (h ++ [c0]) id c1) (length h) = Some (CObj [])).
  { rewrite nth_error_upd_neq by lia. rewrite nth_error_app2 by lia. rewrite Nat.sub_diag. cbn [nth_error].
    destruct C0 as [-> | ->]; [left | right]; reflexivity. }
  rewrite F; [| lia |].
  - rewrite nth_error_upd_neq by (intros ->; exact (NR R)). apply nth_error_app1. exact Lj.
  - intros R1. pose proof (reach_fresh_empty _ _ N _ _ R1 CV). lia. Qed.

Lemma reach_list_member h id l x : get_list h id = Some l -> In x l -> forall r, Reach h x r -> Reach h (HL id) r.
Proof. intros G I r R. exact (reach_l_elem _ _ _ _ _ G I R). Qed.
Lemma reach_obj_member h id kvs k x : get_obj h id = Some kvs -> In (k, x) kvs -> forall r, Reach h x r -> Reach h (HO id) r.
Proof. intros G I r R. exact (reach_o_field _ _ _ _ _ _ G I R). Qed.

Lemma unset_tf_0 h v tf : unset_tf 0 h v tf = (h, true). Proof. reflexivity. Qed.
Lemma set_tf_0 h v tf x : set_tf 0 h v tf x = (h, true). Proof. reflexivity. Qed.

(* closes the goals where the result is the input heap, a single write to the current container, or a lone allocation *)
Ltac foot_done E :=
  injection E as <- <-;
  first [ apply foot_refl
        | apply foot_alloc_only
        | apply foot_write; first [apply reach_l_self | apply reach_o_self] ].

Lemma set_tf_foot : forall fuel h v tf x h' p, set_tf fuel h v tf x = (h', p) -> foot h v h'.
Proof. induction fuel as [|f IH]; intros h v tf x h' p E; [rewrite set_tf_0 in E; foot_done E|].
  rewrite set_tf_S in E. unfold alloc, set_list, set_obj in E. cbv beta iota zeta in E.
  destruct v as [| | | | |id|id]; try (foot_done E).
  - (* a list *)
    destruct (get_list h id) as [l|] eqn:G; [|foot_done E].
    pose proof (get_list_lt _ _ _ G) as Lid.
    destruct (valid_head x23 tf) as [rest|]; [|foot_done E].
    destruct (split_tf rest) as [d|d|].
    + destruct (pint0 (firstn d rest)) as [i|]; [|foot_done E].
      destruct (Z.of_nat (length l) <=? i)%Z.
      { apply IH in E. eapply foot_alloc; [apply reach_l_self | exact Lid | right; reflexivity | right; reflexivity | exact E]. }
      destruct (l_typeof l i); destruct (l_get l i) as [[| | | | |o|o]|] eqn:LG;
        try (match type of E with context [l_replace ?a ?b ?c] => destruct (l_replace a b c) as [l'|] end;
             [ apply IH in E; eapply foot_alloc; [apply reach_l_self | exact Lid | right; reflexivity | right; reflexivity | exact E]
             | foot_done E ]).
      apply IH in E. eapply foot_follow; [|exact E]. exact (reach_list_member _ _ _ _ G (l_get_In _ _ _ LG)).
    + destruct (pint0 (firstn d rest)) as [i|]; [|foot_done E].
      destruct (Z.of_nat (length l) <=? i)%Z.
      { apply IH in E. eapply foot_alloc; [apply reach_l_self | exact Lid | left; reflexivity | left; reflexivity | exact E]. }
      destruct (l_typeof l i); destruct (l_get l i) as [[| | | | |o|o]|] eqn:LG;
        try (match type of E with context [l_replace ?a ?b ?c] => destruct (l_replace a b c) as [l'|] end;
             [ apply IH in E; eapply foot_alloc; [apply reach_l_self | exact Lid | left; reflexivity | left; reflexivity | exact E]
             | foot_done E ]).
      apply IH in E. eapply foot_follow; [|exact E]. exact (reach_list_member _ _ _ _ G (l_get_In _ _ _ LG)).
    + destruct (pint0 rest) as [i|]; [|foot_done E].
      destruct (Z.of_nat (length l) <=? i)%Z; [foot_done E|].
      destruct (l_replace l i x) as [l'|]; foot_done E.
  - (* an object *)
    destruct (get_obj h id) as [kvs|] eqn:G; [|foot_done E].
    pose proof (get_obj_lt _ _ _ G) as Lid.
    destruct (valid_head x2e tf) as [rest|]; [|foot_done E].
    destruct (split_tf rest) as [d|d|].
    + destruct (alookup (firstn d rest) kvs) as [[| | | | |o|o]|] eqn:AL;
        try (apply IH in E; eapply foot_alloc; [apply reach_o_self | exact Lid | right; reflexivity | right; reflexivity | exact E]).
      apply IH in E. eapply foot_follow; [|exact E]. exact (reach_obj_member _ _ _ _ _ G (alookup_In _ _ _ AL)).
    + destruct (alookup (firstn d rest) kvs) as [[| | | | |o|o]|] eqn:AL;
        try (apply IH in E; eapply foot_alloc; [apply reach_o_self | exact Lid | left; reflexivity | left; reflexivity | exact E]).
      apply IH in E. eapply foot_follow; [|exact E]. exact (reach_obj_member _ _ _ _ _ G (alookup_In _ _ _ AL)).
    + foot_done E.
Qed.

Theorem set_tf_footprint : forall fuel h v tf x h' p, set_tf fuel h v tf x = (h', p) ->
  length h <= length h' /\
  forall id, id < length h -> ~ Reach h v id -> nth_error h' id = nth_error h id.
Proof. exact set_tf_foot. Qed.

(* UnsetTF never allocates: same length, and the frame holds for every id (existing or not) *)
Definition ufoot (h : heap) (v : hval) (h' : heap) : Prop :=
  length h' = length h /\ forall j, ~ Reach h v j -> nth_error h' j = nth_error h j.
Lemma ufoot_refl h v : ufoot h v h.
Proof. split; [reflexivity | intros j _; reflexivity]. Qed.
Lemma ufoot_write h v id c : Reach h v id -> ufoot h v (upd h id c).
Proof. intros R. split; [apply upd_length|]. intros j NR. apply nth_error_upd_neq. intros ->. exact (NR R). Qed.
Lemma ufoot_follow h v cv h' : (forall r, Reach h cv r -> Reach h v r) -> ufoot h cv h' -> ufoot h v h'.
Proof. intros S [L F]. split; [exact L|]. intros j NR. apply F. intros R. exact (NR (S _ R)). Qed.

Ltac ufoot_done E :=
  injection E as <- <-;
  first [ apply ufoot_refl | apply ufoot_write; first [apply reach_l_self | apply reach_o_self] ].

Lemma unset_tf_foot : forall fuel h v tf h' p, unset_tf fuel h v tf = (h', p) -> ufoot h v h'.
Proof. induction fuel as [|f IH]; intros h v tf h' p E; [rewrite unset_tf_0 in E; ufoot_done E|].
  rewrite unset_tf_S in E. unfold set_list, set_obj in E.
  destruct v as [| | | | |id|id]; try (ufoot_done E).
  - destruct (get_list h id) as [l|] eqn:G; [|ufoot_done E].
    destruct (valid_head x23 tf) as [rest|]; [|ufoot_done E].
    destruct (split_tf rest) as [d|d|].
    + destruct (pint0 (firstn d rest)) as [i|]; [|ufoot_done E].
      destruct (l_get l i) as [[| | | | |o|o]|] eqn:LG; try (ufoot_done E).
      apply IH in E. eapply ufoot_follow; [|exact E]. exact (reach_list_member _ _ _ _ G (l_get_In _ _ _ LG)).
    + destruct (pint0 (firstn d rest)) as [i|]; [|ufoot_done E].
      destruct (l_get l i) as [[| | | | |o|o]|] eqn:LG; try (ufoot_done E).
      apply IH in E. eapply ufoot_follow; [|exact E]. exact (reach_list_member _ _ _ _ G (l_get_In _ _ _ LG)).
    + destruct (pint0 rest) as [i|]; [|ufoot_done E].
      destruct (l_delete l [i]) as [l' p']. ufoot_done E.
  - destruct (get_obj h id) as [kvs|] eqn:G; [|ufoot_done E].
    destruct (valid_head x2e tf) as [rest|]; [|ufoot_done E].
    destruct (split_tf rest) as [d|d|].
    + destruct (o_get kvs (firstn d rest)) as [[| | | | |o|o]|] eqn:OG; try (ufoot_done E).
      apply IH in E. eapply ufoot_follow; [|exact E].
      unfold o_get in OG. destruct (alookup (firstn d rest) kvs) as [y|] eqn:AL; [|discriminate]. injection OG as ->.
      exact (reach_obj_member _ _ _ _ _ G (alookup_In _ _ _ AL)).
    + destruct (o_get kvs (firstn d rest)) as [[| | | | |o|o]|] eqn:OG; try (ufoot_done E).
      apply IH in E. eapply ufoot_follow; [|exact E].
      unfold o_get in OG. destruct (alookup (firstn d rest) kvs) as [y|] eqn:AL; [|discriminate]. injection OG as ->.
      exact (reach_obj_member _ _ _ _ _ G (alookup_In _ _ _ AL)).
    + ufoot_done E.
Qed.

Theorem unset_tf_footprint : forall fuel h v tf h' p, unset_tf fuel h v tf = (h', p) ->
  length h' = length h /\ forall id, ~ Reach h v id -> nth_error h' id = nth_error h id.
Proof. exact unset_tf_foot. Qed.

(* ================= (F4) a value sharing no container with the receiver's tree reads the same ================= *)
Corollary tf_mutator_independent : forall s o r vr w f, tf_mutator o = Some r -> nth_error (st_env s) r = Some vr ->
  (forall id, Reach (st_heap s) w id -> ~ Reach (st_heap s) vr id) ->
  (forall id, Reach (st_heap s) w id -> id < length (st_heap s)) ->
  reify f (st_heap (fst (step_core s o))) w = reify f (st_heap s) w.
Proof. intros s o r vr w f T E NR LT.
  destruct o; cbn [tf_mutator] in T; try discriminate; injection T as ->; cbn [step_core]; rewrite E.
  - destruct (eval_operand (st_env s) v) as [xv|]; [|reflexivity].
    destruct (set_tf (S (length tf)) (st_heap s) vr tf xv) as [h1 p] eqn:ST. cbn [fst with_heap st_heap].
    destruct (set_tf_footprint _ _ _ _ _ _ _ ST) as [_ F].
    apply reify_frame. intros id R. apply F; [exact (LT _ R) | exact (NR _ R)].
  - destruct (unset_tf (S (length tf)) (st_heap s) vr tf) as [h1 p] eqn:ST. cbn [fst with_heap st_heap].
    destruct (unset_tf_footprint _ _ _ _ _ _ ST) as [_ F].
    apply reify_frame. intros id R. apply F. exact (NR _ R).
Qed.

(* the same two facts also preserve the SET of cells reachable from w (so the argument can be iterated) *)
Corollary tf_mutator_reach_unchanged : forall s o r vr w, tf_mutator o = Some r -> nth_error (st_env s) r = Some vr ->
  (forall id, Reach (st_heap s) w id -> ~ Reach (st_heap s) vr id) ->
  (forall id, Reach (st_heap s) w id -> id < length (st_heap s)) ->
  forall id, Reach (st_heap (fst (step_core s o))) w id <-> Reach (st_heap s) w id.
Proof. intros s o r vr w T E NR LT id. symmetry. apply reach_frame. clear id.
  destruct o; cbn [tf_mutator] in T; try discriminate; injection T as ->; cbn [step_core]; rewrite E.
  - destruct (eval_operand (st_env s) v) as [xv|]; [intros id R|reflexivity].
    destruct (set_tf (S (length tf)) (st_heap s) vr tf xv) as [h1 p] eqn:ST. cbn [fst with_heap st_heap].
    destruct (set_tf_footprint _ _ _ _ _ _ _ ST) as [_ F]. apply F; [exact (LT _ R) | exact (NR _ R)].
  - intros id R. destruct (unset_tf (S (length tf)) (st_heap s) vr tf) as [h1 p] eqn:ST. cbn [fst with_heap st_heap].
    destruct (unset_tf_footprint _ _ _ _ _ _ ST) as [_ F]. apply F. exact (NR _ R).
Qed.

(* the basic mutators as well *)
Corollary basic_mutator_reach_unchanged : forall s o r vr w, basic_mutator o = Some r -> nth_error (st_env s) r = Some vr ->
  (forall id, Reach (st_heap s) w id -> vr <> HL id /\ vr <> HO id) ->
  forall id, Reach (st_heap (fst (step_core s o))) w id <-> Reach (st_heap s) w id.
Proof. intros s o r vr w B E NR.
  destruct (basic_mutator_footprint s o r B) as [_ [-> | [id [c [K [L ->]]]]]]; [intros id; reflexivity|].
  apply (write_outside (st_heap s) w id c 0). intros R. destruct (NR _ R) as [N1 N2].
  destruct K as [K | K]; rewrite K in E; injection E as <-; [apply N1 | apply N2]; reflexivity. Qed.

(* ================= sanity: a malformed path still respects the footprint, and the statements are not vacuous ================= *)
(* heap: 0 = receiver object {a: list 1}, 1 = list [], 2 = an unrelated list [7]; path ".a#5#" is malformed (empty last word) *)
Example footprint_example :
  let h := [CObj [([x61], HL 1)]; CList []; CList [HInt 7%Z]] in
  let tf := [x2e; x61; x23; x35; x23] in
  let r := set_tf (S (length tf)) h (HO 0) tf (HInt 1%Z) in
  snd r = true /\ nth_error (fst r) 2 = nth_error h 2 /\ length (fst r) = 4 /\ nth_error (fst r) 1 <> nth_error h 1.
Proof. vm_compute. repeat split; discriminate. Qed.

