(* RunC18.v — correspondence runner for C18: the aggregates of Aggregates.v, executed with IEEE floats. *)
From Anytype Require Import Base FloatBits Value Aggregates FloatExec RunCommon.
Local Open Scope Z_scope.

Record c18_obs := mkC18 { o_sum : Z; o_prod : Z; o_avg : Z; o_min : res Z; o_max : res Z;
                          o_isum : Z; o_iprod : Z; o_imin : Z; o_imax : Z }.

Definition c18_model (l : list val) : c18_obs :=
  mkC18 (Sum x_fadd x_of_int l) (Prod x_fmul x_of_int l) (Avg x_fadd x_fdiv x_of_int l)
        (Min x_of_int l) (Max x_of_int l) (IntSum l) (IntProd l) (IntMin l) (IntMax l).

Definition c18_obs_eqb (a b : c18_obs) : bool :=
  fsame (o_sum a) (o_sum b) && fsame (o_prod a) (o_prod b) && fsame (o_avg a) (o_avg b) &&
  res_eqb fsame (o_min a) (o_min b) && res_eqb fsame (o_max a) (o_max b) &&
  (o_isum a =? o_isum b) && (o_iprod a =? o_iprod b) && (o_imin a =? o_imin b) && (o_imax a =? o_imax b).

(* the oracle contract used by the theorems (float64(int) is a finite pattern) is validated on every int of the case *)
Definition c18_contract (l : list val) : bool :=
  forallb (fun v => match v with VInt z => fbits_ok (x_of_int z) && is_finite (x_of_int z) | _ => true end) l.

Definition c18_check (c : list val * c18_obs) : bool :=
  let '(l, o) := c in c18_contract l && c18_obs_eqb (c18_model l) o.
