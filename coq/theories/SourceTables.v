(* SourceTables.v — the vocabulary of the tables the translator (harness astx) extracts from the source on every run
   (Generated/GenTables.v), their semantics, and boolean checkers whose soundness theorems turn `checker gen_table = true`
   (closed, by vm_compute) into a statement for ALL arguments.  Tables: quote()'s escape switch (anytype.go), the Type
   constants, the range guards of the two FormatString methods. *)
From Anytype Require Import Base FloatBits Value GoInt Utf8 GoUnquote Json.
Local Open Scope Z_scope.

(* ---------- quote(): what a case body writes, and the cases in source order (default last) ---------- *)
Inductive qwrite :=
| WLit (b : bytes)          (* result.WriteString(lit) / WriteByte(lit) ... *)
| WHex (prefix : bytes)     (* prefix, then hex[char>>4], hex[char&0xf] with hex = 0123456789abcdef *)
| WRune.                    (* result.WriteRune(char) *)
Inductive qcase :=
| QEq (c : Z) (w : qwrite)      (* case char == c *)
| QLt (bound : Z) (w : qwrite)  (* case char < bound *)
| QDefault (w : qwrite)
| QOther (src : bytes).         (* anything the translator does not recognise *)

Definition qwrite_eval (w : qwrite) (r : Z) : option bytes :=
  match w with
  | WLit b => Some b
  | WHex p => if r <? 256 then Some (p ++ [hex_digit (r / 16); hex_digit (r mod 16)]) else None  (* hex[16..] is out of range *)
  | WRune => Some (encode_rune r)
  end.
Fixpoint qinterp (cs : list qcase) (r : Z) : option bytes :=
  match cs with
  | [] => Some []
  | QEq c w :: t => if r =? c then qwrite_eval w r else qinterp t r
  | QLt b w :: t => if r <? b then qwrite_eval w r else qinterp t r
  | QDefault w :: _ => qwrite_eval w r
  | QOther _ :: _ => None
  end.

Fixpoint qsmall (cs : list qcase) : bool :=
  match cs with
  | QEq c _ :: t => (0 <=? c) && (c <? 128) && qsmall t
  | QLt b _ :: t => (b <=? 128) && qsmall t
  | QDefault WRune :: _ => true
  | _ => false
  end.
Definition qtable_ok (cs : list qcase) : bool :=
  forallb (fun n => match qinterp cs (Z.of_nat n) with Some b => bytes_eqb b (quote_rune (Z.of_nat n)) | None => false end) (seq 0 128)
  && qsmall cs.

(* ---------- FormatString range guards ---------- *)
Inductive guard :=
| GLt (c : Z) | GGt (c : Z)          (* indent < c, indent > c *)
| GOr (a b : guard) | GAnd (a b : guard)
| GOther (src : bytes) | GNone.
Fixpoint geval (g : guard) (n : Z) : option bool :=
  match g with
  | GLt c => Some (n <? c) | GGt c => Some (c <? n)
  | GOr a b => match geval a n, geval b n with Some x, Some y => Some (x || y) | _, _ => None end
  | GAnd a b => match geval a n, geval b n with Some x, Some y => Some (x && y) | _, _ => None end
  | GOther _ | GNone => None
  end.
Fixpoint gconsts_within (g : guard) (lo hi : Z) : bool :=
  match g with
  | GLt c | GGt c => (lo <=? c) && (c <=? hi)
  | GOr a b | GAnd a b => gconsts_within a lo hi && gconsts_within b lo hi
  | GOther _ | GNone => false
  end.
Definition guard_spec (n : Z) : bool := (n <? 0) || (10 <? n).      (* FormatModel.format_string panics exactly here *)
Definition opt_bool_eqb (a : option bool) (b : bool) : bool := match a with Some x => Bool.eqb x b | None => false end.
Definition guard_ok (g : guard) : bool :=
  gconsts_within g (-19) 29 &&
  forallb (fun k => opt_bool_eqb (geval g (Z.of_nat k - 20)) (guard_spec (Z.of_nat k - 20))) (seq 0 51).

(* ---------- Type constants ---------- *)
Definition model_type_consts : list (bytes * Z) :=
  [(B"TypeUndefined", kind_code KUndefined); (B"TypeNil", kind_code KNil); (B"TypeObject", kind_code KObject); (B"TypeList", kind_code KList);
   (B"TypeString", kind_code KString); (B"TypeBool", kind_code KBool); (B"TypeInt", kind_code KInt); (B"TypeFloat", kind_code KFloat)].
