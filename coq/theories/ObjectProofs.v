(* ObjectProofs.v — the object operations of Heap.v behave as a finite map from arbitrary byte strings to values (C06). *)
From Anytype Require Import Base FloatBits Value Heap.
From Coq Require Import Permutation.
Local Open Scope Z_scope.

(* ---------- distinct keys are an invariant ---------- *)
Lemma akeys_aset_in {A} k (x : A) kvs k' : In k' (akeys (aset k x kvs)) <-> (k' = k \/ In k' (akeys kvs)).
Proof. induction kvs as [|[k0 v0] t IH]; simpl.
  - split; [intros [H|[]]; auto | intros [H|[]]; auto].
  - destruct (bytes_eqb k k0) eqn:E; simpl.
    + apply bytes_eqb_eq in E. subst k0. split; [intros [H|H]; auto | intros [H|[H|H]]; auto].
    + rewrite IH. split; [intros [H|[H|H]]; auto | intros [H|[H|H]]; auto]. Qed.
Lemma nodup_aset {A} k (x : A) kvs : NoDup (akeys kvs) -> NoDup (akeys (aset k x kvs)).
Proof. induction kvs as [|[k0 v0] t IH]; simpl; intros ND.
  - constructor; [intros [] | constructor].
  - inversion ND as [|? ? Hn ND']. subst. destruct (bytes_eqb k k0) eqn:E; simpl.
    + apply bytes_eqb_eq in E. subst k0. constructor; assumption.
    + apply bytes_eqb_neq in E. constructor; [|apply IH; exact ND'].
      intros Hin. apply akeys_aset_in in Hin as [H|H]; [congruence | contradiction]. Qed.
Lemma akeys_aremove_in {A} k (kvs : list (bytes * A)) k' : In k' (akeys (aremove k kvs)) <-> (k' <> k /\ In k' (akeys kvs)).
Proof. induction kvs as [|[k0 v0] t IH]; simpl.
  - split; [intros [] | intros [_ []]].
  - destruct (bytes_eqb k k0) eqn:E; simpl.
    + apply bytes_eqb_eq in E. subst k0. rewrite IH. split; [intros [H1 H2]; auto | intros [H1 [H2|H2]]; [congruence | auto]].
    + apply bytes_eqb_neq in E. rewrite IH. split.
      * intros [H|[H1 H2]]; [subst; split; [congruence | auto] | auto].
      * intros [H1 [H2|H2]]; auto. Qed.
Lemma nodup_aremove {A} k (kvs : list (bytes * A)) : NoDup (akeys kvs) -> NoDup (akeys (aremove k kvs)).
Proof. induction kvs as [|[k0 v0] t IH]; simpl; intros ND; [constructor|].
  inversion ND as [|? ? Hn ND']. subst. destruct (bytes_eqb k k0) eqn:E; simpl; [apply IH; exact ND'|].
  constructor; [|apply IH; exact ND']. intros Hin. apply akeys_aremove_in in Hin as [_ H]. contradiction. Qed.
Lemma aremove_absent {A} k (kvs : list (bytes * A)) : alookup k kvs = None -> aremove k kvs = kvs.
Proof. induction kvs as [|[k0 v0] t IH]; simpl; [reflexivity|]. destruct (bytes_eqb k k0); [discriminate|]. intros H. f_equal. apply IH. exact H. Qed.

(* ---------- Set: the last pair for a key wins; other keys are untouched ---------- *)
Fixpoint pairs_of (args : list hval) : option (list (bytes * hval)) :=
  match args with
  | [] => Some []
  | HStr k :: v :: t => match pairs_of t with Some ps => Some ((k, v) :: ps) | None => None end
  | _ => None
  end.
Definition set_all (kvs : list (bytes * hval)) (ps : list (bytes * hval)) : list (bytes * hval) :=
  fold_left (fun acc p => aset (fst p) (snd p) acc) ps kvs.

Lemma pairs_ind (P : list hval -> Prop) :
  P [] -> (forall a, P [a]) -> (forall a b t, P t -> P (a :: b :: t)) -> forall l, P l.
Proof. intros H0 H1 H2. fix IH 1. intros [|a [|b t]]; [exact H0 | apply H1 | apply H2; apply IH]. Qed.

Lemma o_set_pairs_ok args : forall kvs ps, pairs_of args = Some ps -> o_set_pairs kvs args = (set_all kvs ps, false).
Proof. induction args as [|a|a v t IH] using pairs_ind; intros kvs ps H; simpl in *.
  - injection H as <-. reflexivity.
  - destruct a; discriminate.
  - destruct a; try discriminate. destruct (pairs_of t) as [ps'|] eqn:E; [|discriminate]. injection H as <-.
    simpl. apply IH. reflexivity. Qed.
Lemma pairs_of_even args : forall ps, pairs_of args = Some ps -> Nat.odd (length args) = false.
Proof. induction args as [|a|a v t IH] using pairs_ind; intros ps H; simpl in *; [reflexivity | destruct a; discriminate |].
  destruct a; try discriminate. destruct (pairs_of t) as [ps'|] eqn:E; [|discriminate].
  change (Nat.odd (S (S (length t)))) with (Nat.odd (length t)). apply (IH ps'). reflexivity. Qed.

Theorem o_set_ok kvs args ps : pairs_of args = Some ps -> o_set kvs args = (set_all kvs ps, false).
Proof. intros H. unfold o_set. rewrite (pairs_of_even _ _ H). apply o_set_pairs_ok. exact H. Qed.
Theorem o_set_odd kvs args : Nat.odd (length args) = true -> o_set kvs args = (kvs, true).
Proof. intros H. unfold o_set. rewrite H. reflexivity. Qed.
(* a non-string key panics (after the earlier pairs were stored) *)
Lemma o_set_pairs_bad_key args : forall kvs, Nat.odd (length args) = false -> pairs_of args = None -> snd (o_set_pairs kvs args) = true.
Proof. induction args as [|a|a v t IH] using pairs_ind; intros kvs Hev H; simpl in *; try discriminate.
  change (Nat.odd (S (S (length t)))) with (Nat.odd (length t)) in Hev.
  destruct a; try reflexivity. destruct (pairs_of t) as [ps'|] eqn:E; [discriminate|].
  apply IH; [exact Hev | reflexivity]. Qed.
Theorem o_set_bad_key args kvs : Nat.odd (length args) = false -> pairs_of args = None -> snd (o_set kvs args) = true.
Proof. intros Hev H. unfold o_set. rewrite Hev. apply o_set_pairs_bad_key; assumption. Qed.

Lemma alookup_set_all (ps : list (bytes * hval)) : forall (kvs : list (bytes * hval)) k,
  alookup k (set_all kvs ps) = match alookup k (rev ps) with Some v => Some v | None => alookup k kvs end.
Proof. induction ps as [|[k0 v0] t IH]; intros kvs k; simpl; [reflexivity|].
  unfold set_all in *. simpl. rewrite IH.
  assert (R: forall l : list (bytes * hval), alookup k (l ++ [(k0, v0)]) = match alookup k l with Some v => Some v | None => if bytes_eqb k k0 then Some v0 else None end).
  { induction l as [|[k1 v1] l IHl]; simpl; [reflexivity|]. destruct (bytes_eqb k k1); [reflexivity | exact IHl]. }
  rewrite R. destruct (alookup k (rev t)); [reflexivity|].
  destruct (bytes_eqb k k0) eqn:E.
  - apply bytes_eqb_eq in E. subst. apply alookup_aset_eq.
  - apply bytes_eqb_neq in E. apply alookup_aset_neq. exact E. Qed.

Lemma nodup_set_all ps : forall kvs, NoDup (akeys kvs) -> NoDup (akeys (set_all kvs ps)).
Proof. induction ps as [|p t IH]; intros kvs ND; simpl; [exact ND|]. apply IH. apply nodup_aset. exact ND. Qed.

(* ---------- Unset ---------- *)
Theorem alookup_o_unset keys : forall kvs k,
  alookup k (o_unset kvs keys) = if existsb (bytes_eqb k) keys then None else alookup k kvs.
Proof. unfold o_unset. induction keys as [|k0 t IH]; intros kvs k; simpl; [reflexivity|].
  rewrite IH. destruct (bytes_eqb k k0) eqn:E; simpl.
  - apply bytes_eqb_eq in E. subst. destruct (existsb _ t); [reflexivity | apply alookup_aremove_eq].
  - apply bytes_eqb_neq in E. destruct (existsb _ t); [reflexivity | apply alookup_aremove_neq; exact E]. Qed.
Theorem o_unset_missing kvs k : alookup k kvs = None -> o_unset kvs [k] = kvs.
Proof. intros H. unfold o_unset. simpl. apply aremove_absent. exact H. Qed.
Lemma nodup_o_unset keys : forall kvs, NoDup (akeys kvs) -> NoDup (akeys (o_unset kvs keys)).
Proof. unfold o_unset. induction keys as [|k t IH]; intros kvs ND; simpl; [exact ND|]. apply IH. apply nodup_aremove. exact ND. Qed.

(* ---------- Merge: the argument's value wins on a shared key ---------- *)
Theorem alookup_merge (kvs1 kvs2 : list (bytes * hval)) k : NoDup (akeys kvs2) ->
  alookup k (fold_left (fun acc kv => aset (fst kv) (snd kv) acc) kvs2 kvs1) =
  match alookup k kvs2 with Some v => Some v | None => alookup k kvs1 end.
Proof. intros ND. change (fold_left _ kvs2 kvs1) with (set_all kvs1 kvs2). rewrite alookup_set_all.
  assert (R: alookup k (rev kvs2) = alookup k kvs2).
  { destruct (alookup k kvs2) as [v|] eqn:E.
    - apply alookup_NoDup_In.
      + unfold akeys. rewrite map_rev. apply NoDup_rev. exact ND.
      + apply in_rev. rewrite rev_involutive. apply alookup_In. exact E.
    - apply alookup_None_notin. apply alookup_None_notin in E. unfold akeys in *. rewrite map_rev. intros H. apply E. apply in_rev. exact H. }
  rewrite R. reflexivity. Qed.

(* ---------- Pluck: exactly the requested keys; panics iff one is missing ---------- *)
Definition pluck_fold (kvs : list (bytes * hval)) (keys : list bytes) (init : option (list (bytes * hval))) :=
  fold_left (fun acc k => match acc with
                          | None => None
                          | Some res => match alookup k kvs with Some v => Some (aset k v res) | None => None end
                          end) keys init.
Lemma pluck_fold_none kvs keys : pluck_fold kvs keys None = None.
Proof. unfold pluck_fold. induction keys as [|k t IH]; simpl; [reflexivity | exact IH]. Qed.
Theorem pluck_spec kvs keys : forall res0,
  match pluck_fold kvs keys (Some res0) with
  | Some res => forallb (fun k => match alookup k kvs with Some _ => true | None => false end) keys = true /\
                forall k, alookup k res = if existsb (bytes_eqb k) keys then alookup k kvs else alookup k res0
  | None => exists k, In k keys /\ alookup k kvs = None
  end.
Proof. induction keys as [|k0 t IH]; intros res0; simpl.
  - split; [reflexivity | intros k; reflexivity].
  - unfold pluck_fold in *. simpl. destruct (alookup k0 kvs) as [v0|] eqn:E0.
    + specialize (IH (aset k0 v0 res0)).
      destruct (fold_left _ t (Some (aset k0 v0 res0))) as [res|].
      * destruct IH as [H1 H2]. split; [exact H1|]. intros k. rewrite H2.
        destruct (bytes_eqb k k0) eqn:E; simpl.
        -- apply bytes_eqb_eq in E. subst. destruct (existsb _ t); [reflexivity | rewrite alookup_aset_eq; symmetry; exact E0].
        -- apply bytes_eqb_neq in E. destruct (existsb _ t); [reflexivity | apply alookup_aset_neq; exact E].
      * destruct IH as [k [H1 H2]]. exists k. split; [right; exact H1 | exact H2].
    + fold (pluck_fold kvs t None). rewrite pluck_fold_none. exists k0. split; [left; reflexivity | exact E0]. Qed.

(* ---------- Keys / Values / Dict / Count describe the same field set, for every enumeration order ---------- *)
Lemma remove_key_perm k l l' : remove_key k l = Some l' -> Permutation l (k :: l').
Proof. revert l'. induction l as [|x t IH]; intros l' H; simpl in H; [discriminate|].
  destruct (bytes_eqb k x) eqn:E.
  - apply bytes_eqb_eq in E. subst. injection H as <-. apply Permutation_refl.
  - destruct (remove_key k t) as [t'|]; [|discriminate]. injection H as <-.
    eapply Permutation_trans; [apply perm_skip; apply IH; reflexivity | apply perm_swap]. Qed.
Lemma is_key_perm_perm order : forall keys, is_key_perm order keys = true -> Permutation order keys.
Proof. induction order as [|k t IH]; intros keys H; simpl in H.
  - destruct keys; [constructor | discriminate].
  - destruct (remove_key k keys) as [keys'|] eqn:E; [|discriminate].
    apply Permutation_sym. eapply Permutation_trans; [apply remove_key_perm; exact E|]. constructor. apply Permutation_sym. apply IH. exact H. Qed.

Theorem in_order_spec kvs order okvs : NoDup (akeys kvs) -> in_order kvs order = Some okvs ->
  map fst okvs = order /\ Permutation okvs kvs.
Proof. intros ND. unfold in_order. destruct (is_key_perm order (akeys kvs)) eqn:P; [|discriminate]. intros H. injection H as <-.
  apply is_key_perm_perm in P.
  assert (Hall: forall k, In k order -> exists v, alookup k kvs = Some v).
  { intros k Hk. apply (Permutation_in _ P) in Hk. destruct (alookup k kvs) eqn:E; [eauto|]. apply alookup_None_notin in E. contradiction. }
  assert (M: map fst (flat_map (fun k => match alookup k kvs with Some v => [(k, v)] | None => [] end) order) = order).
  { clear P. induction order as [|k t IH]; simpl; [reflexivity|]. destruct (Hall k (or_introl eq_refl)) as [v ->]. simpl. f_equal.
    apply IH. intros k' Hk'. apply Hall. right. exact Hk'. }
  split; [exact M|].
  apply NoDup_Permutation_bis.
  - (* NoDup of the enumerated pairs: their keys are NoDup *)
    apply (NoDup_map_inv fst). rewrite M. apply (Permutation_NoDup (Permutation_sym P)). exact ND.
  - apply Nat.eq_le_incl. rewrite <- (map_length fst kvs). fold (akeys kvs). rewrite <- (Permutation_length P). rewrite <- M at 1. rewrite map_length. reflexivity.
  - intros [k v] Hin. apply in_flat_map in Hin as [k' [Hk' Hin]]. destruct (alookup k' kvs) as [v'|] eqn:E; [|destruct Hin].
    destruct Hin as [Hin|[]]. injection Hin as <- <-. apply alookup_In. exact E. Qed.

Theorem count_is_number_of_keys (kvs : list (bytes * hval)) : length kvs = length (akeys kvs).
Proof. unfold akeys. rewrite map_length. reflexivity. Qed.

(* ---------- panic domains of the getters ---------- *)
Theorem o_get_panic_iff kvs k : o_get kvs k = Panic <-> alookup k kvs = None.
Proof. unfold o_get. destruct (alookup k kvs); split; intros H; try discriminate; reflexivity. Qed.
Theorem typed_panic_iff kd r : typed kd r = Pan <-> (r = Panic \/ exists v, r = Ok v /\ hkind v <> kd).
Proof. unfold typed. destruct r as [v|].
  - destruct (kind_eqb (hkind v) kd) eqn:E.
    + apply kind_eqb_eq in E. split; [discriminate | intros [H|[v' [H1 H2]]]; [discriminate | injection H1 as <-; contradiction]].
    + split; [intros _; right; exists v; split; [reflexivity|]; intros H; apply kind_eqb_eq in H; congruence | reflexivity].
  - split; auto. Qed.
Theorem o_typeof_undefined_iff kvs k : o_typeof kvs k = KUndefined <-> alookup k kvs = None.
Proof. unfold o_typeof. destruct (alookup k kvs) as [v|]; [|split; reflexivity]. split; [destruct v; discriminate | discriminate]. Qed.
(* KeyOf: some key holding the value; panics iff none *)
Theorem o_contains_iff kvs x : o_contains kvs x = true <-> exists k v, In (k, v) kvs /\ hval_go_eq v x = true.
Proof. unfold o_contains. rewrite existsb_exists. split.
  - intros [[k v] [H1 H2]]. exists k, v. auto.
  - intros [k [v [H1 H2]]]. exists (k, v). auto. Qed.

(* step-level reading of KeyOf / KeyExists / Empty: the state is untouched; KeyOf panics exactly when no field holds the value,
   a returned key holds a Go-equal value, and the model rejects (OBad) exactly the runtime answers that are inconsistent with that *)
Lemma keyof_step s r v answer id kvs x : reg_obj s r = Some (id, kvs) -> eval_operand (st_env s) v = Some x ->
  fst (step_core s (OKeyOf r v answer)) = s /\
  (snd (step_core s (OKeyOf r v answer)) = Pan <-> answer = None /\ o_contains kvs x = false) /\
  (forall k, snd (step_core s (OKeyOf r v answer)) = Ret (OV (HStr k)) <->
     answer = Some k /\ exists y, alookup k kvs = Some y /\ hval_go_eq y x = true) /\
  (snd (step_core s (OKeyOf r v answer)) = Ret OBad <->
     match answer with Some k => forall y, alookup k kvs = Some y -> hval_go_eq y x = false | None => o_contains kvs x = true end).
Proof.
  intros Hr Hv. cbn [step_core]. rewrite Hr, Hv. destruct answer as [k|].
  - destruct (alookup k kvs) as [y|] eqn:Ek.
    + destruct (hval_go_eq y x) eqn:Eg; cbn [fst snd bad].
      * split; [reflexivity|]. split; [split; [discriminate | intros [H _]; discriminate]|]. split.
        -- intros k'. split.
           ++ intros H. injection H as <-. split; [reflexivity|]. exists y. split; assumption.
           ++ intros [H _]. injection H as <-. reflexivity.
        -- split; [discriminate|]. intros H. specialize (H y eq_refl). congruence.
      * split; [reflexivity|]. split; [split; [discriminate | intros [H _]; discriminate]|]. split.
        -- intros k'. split; [discriminate|]. intros [H [y' [H1 H2]]]. injection H as <-. rewrite Ek in H1. injection H1 as <-. congruence.
        -- split; [|reflexivity]. intros _ y' H. injection H as <-. exact Eg.
    + cbn [fst snd bad]. split; [reflexivity|]. split; [split; [discriminate | intros [H _]; discriminate]|]. split.
      * intros k'. split; [discriminate|]. intros [H [y' [H1 _]]]. injection H as <-. rewrite Ek in H1. discriminate.
      * split; [|reflexivity]. intros _ y' H. discriminate.
  - destruct (o_contains kvs x) eqn:Ec; cbn [fst snd bad].
    + split; [reflexivity|]. split; [split; [discriminate | intros [_ H]; discriminate]|]. split.
      * intros k'. split; [discriminate | intros [H _]; discriminate].
      * split; reflexivity.
    + split; [reflexivity|]. split; [split; [intros _; split; reflexivity | reflexivity]|]. split.
      * intros k'. split; [discriminate | intros [H _]; discriminate].
      * split; discriminate.
Qed.
Lemma keyexists_empty_count_step s r id kvs k : reg_obj s r = Some (id, kvs) ->
  step_core s (OKeyExists r k) = (s, Ret (OB (match alookup k kvs with Some _ => true | None => false end))) /\
  step_core s (OEmpty r) = (s, Ret (OB (Nat.eqb (length kvs) 0))).
Proof. intros Hr. cbn [step_core]. rewrite Hr. split; [reflexivity|]. destruct kvs; reflexivity. Qed.

(* Clear: no panic; the receiver's cell becomes empty for every alias; other cells and the environment untouched *)
Lemma oclear_step s r id kvs : reg_obj s r = Some (id, kvs) ->
  let s' := fst (step_core s (OClear r)) in
  snd (step_core s (OClear r)) = Ret ONone /\ st_env s' = st_env s /\
  (forall r', nth_error (st_env s) r' = Some (HO id) -> reg_obj s' r' = Some (id, [])) /\
  (forall j, j <> id -> nth_error (st_heap s') j = nth_error (st_heap s) j) /\ length (st_heap s') = length (st_heap s).
Proof.
  intros Hr. cbn [step_core]. rewrite Hr. cbn [fst snd with_heap st_env st_heap]. split; [reflexivity|]. split; [reflexivity|].
  assert (Hid : (id < length (st_heap s))%nat).
  { unfold reg_obj in Hr. destruct (nth_error (st_env s) r) as [[| | | | | |i]|]; try discriminate.
    unfold get_obj in Hr. destruct (nth_error (st_heap s) i) as [c|] eqn:E; [|discriminate].
    destruct c; try discriminate. injection Hr as <- _. apply nth_error_Some. congruence. }
  split; [|split].
  - intros r' Hr'. unfold reg_obj, with_heap. cbn [st_env st_heap]. rewrite Hr'. unfold get_obj, set_obj.
    rewrite nth_error_upd_eq by exact Hid. reflexivity.
  - intros j Hj. unfold set_obj. apply nth_error_upd_neq. congruence.
  - unfold set_obj. apply upd_length.
Qed.
