(* Sorting.v — model of List.Sort and List.Reverse (list_impl.go) and the C17 lemmas. *)
From Anytype Require Import Base FloatBits Value.
From Coq Require Import Permutation Sorted.
Local Open Scope Z_scope.

(* ---------- a concrete sort (insertion sort), generic over a boolean order ---------- *)
Section ISort.
  Context {A : Type}.
  Variable leb : A -> A -> bool.
  Fixpoint insert (x : A) (l : list A) : list A :=
    match l with
    | [] => [x]
    | y :: t => if leb x y then x :: y :: t else y :: insert x t
    end.
  Fixpoint isort (l : list A) : list A := match l with [] => [] | x :: t => insert x (isort t) end.

  Lemma insert_perm x l : Permutation (x :: l) (insert x l).
  Proof. induction l as [|y t IH]; simpl; [apply Permutation_refl|].
    destruct (leb x y); [apply Permutation_refl|]. eapply Permutation_trans; [apply perm_swap|]. constructor. exact IH. Qed.
  Lemma isort_perm l : Permutation l (isort l).
  Proof. induction l as [|x t IH]; simpl; [constructor|]. eapply Permutation_trans; [|apply insert_perm]. constructor. exact IH. Qed.

  Hypothesis leb_total : forall a b, leb a b = true \/ leb b a = true.
  Hypothesis leb_trans : forall a b c, leb a b = true -> leb b c = true -> leb a c = true.

  Definition sortedP (l : list A) : Prop := StronglySorted (fun a b => leb a b = true) l.

  Lemma insert_sorted x l : sortedP l -> sortedP (insert x l).
  Proof using leb_total leb_trans. unfold sortedP. induction l as [|y t IH]; intros S; simpl.
    - constructor; constructor.
    - inversion S as [|? ? St Hall]. subst. destruct (leb x y) eqn:E.
      + constructor; [exact S|]. constructor; [exact E|].
        rewrite Forall_forall in *. intros z Hz. apply (leb_trans _ _ _ E). apply Hall. exact Hz.
      + constructor; [apply IH; exact St|].
        assert (Hyx: leb y x = true) by (destruct (leb_total x y); congruence).
        rewrite Forall_forall in *. intros z Hz.
        apply (Permutation_in _ (Permutation_sym (insert_perm x t))) in Hz. destruct Hz as [<-|Hz]; [exact Hyx | apply Hall; exact Hz]. Qed.
  Lemma isort_sorted l : sortedP (isort l).
  Proof using leb_total leb_trans. induction l as [|x t IH]; simpl; [constructor | apply insert_sorted; exact IH]. Qed.

  (* sorting an already sorted list changes nothing up to the order's equivalence; with an antisymmetric order: idempotent *)
  Lemma insert_sorted_head x l : sortedP (x :: l) -> insert x l = x :: l.
  Proof. unfold sortedP. intros S. inversion S as [|? ? St Hall]. subst. destruct l as [|y t]; simpl; [reflexivity|].
    inversion Hall as [|? ? Hxy _]. subst. rewrite Hxy. reflexivity. Qed.
  Lemma isort_id_on_sorted l : sortedP l -> isort l = l.
  Proof. unfold sortedP. induction l as [|x t IH]; intros S; simpl; [reflexivity|].
    inversion S as [|? ? St Hall]. subst. rewrite IH by exact St. apply insert_sorted_head. exact S. Qed.
  Lemma isort_idem l : isort (isort l) = isort l.
  Proof using leb_total leb_trans. apply isort_id_on_sorted. apply isort_sorted. Qed.

  (* uniqueness for an antisymmetric order: a sorted permutation is unique.
     This is what licenses modelling sort.Ints/Strings (and Float64s through the sign-magnitude key) by any concrete sort. *)
  Hypothesis leb_antisym : forall a b, leb a b = true -> leb b a = true -> a = b.
  Lemma sorted_perm_unique l1 : forall l2, sortedP l1 -> sortedP l2 -> Permutation l1 l2 -> l1 = l2.
  Proof using leb_total leb_antisym. unfold sortedP. induction l1 as [|x t1 IH]; intros l2 S1 S2 P.
    - apply Permutation_nil in P. subst. reflexivity.
    - destruct l2 as [|y t2]; [apply Permutation_sym, Permutation_nil in P; discriminate|].
      inversion S1 as [|? ? St1 H1]. inversion S2 as [|? ? St2 H2]. subst.
      assert (x = y).
      { apply leb_antisym.
        - assert (In y (x :: t1)) as [<-|Hy] by (apply (Permutation_in _ (Permutation_sym P)); left; reflexivity).
          + destruct (leb_total x x); assumption.
          + rewrite Forall_forall in H1. apply H1. exact Hy.
        - assert (In x (y :: t2)) as [<-|Hx] by (apply (Permutation_in _ P); left; reflexivity).
          + destruct (leb_total y y); assumption.
          + rewrite Forall_forall in H2. apply H2. exact Hx. }
      subst y. f_equal. apply IH; [exact St1 | exact St2 | apply Permutation_cons_inv with (a := x); exact P]. Qed.
End ISort.

(* ---------- the three orders ---------- *)
Lemma Zleb_total a b : (a <=? b) = true \/ (b <=? a) = true. Proof. lia. Qed.
Lemma Zleb_trans a b c : (a <=? b) = true -> (b <=? c) = true -> (a <=? c) = true. Proof. lia. Qed.
Lemma Zleb_antisym a b : (a <=? b) = true -> (b <=? a) = true -> a = b. Proof. lia. Qed.

Lemma bytes_ltb_irrefl a : bytes_ltb a a = false.
Proof. induction a as [|x a IH]; simpl; [reflexivity|]. rewrite Z.ltb_irrefl. exact IH. Qed.
Lemma bytes_ltb_trans a : forall b c, bytes_ltb a b = true -> bytes_ltb b c = true -> bytes_ltb a c = true.
Proof. induction a as [|x a IH]; intros [|y b] [|z c]; simpl; try discriminate; auto.
  destruct (bZ x <? bZ y) eqn:E1, (bZ y <? bZ x) eqn:E2, (bZ y <? bZ z) eqn:E3, (bZ z <? bZ y) eqn:E4; try discriminate; try lia;
    intros H1 H2; destruct (bZ x <? bZ z) eqn:E5; try reflexivity; destruct (bZ z <? bZ x) eqn:E6; try lia; try discriminate.
  apply (IH b c); assumption. Qed.
Lemma bytes_ltb_total a : forall b, bytes_ltb a b = false -> bytes_ltb b a = false -> a = b.
Proof. induction a as [|x a IH]; intros [|y b]; simpl; try discriminate; auto.
  destruct (bZ x <? bZ y) eqn:E1; [discriminate|]. destruct (bZ y <? bZ x) eqn:E2; [discriminate|].
  intros H1 H2. assert (x = y) by (apply bZ_inj; lia). subst. f_equal. apply IH; assumption. Qed.
Lemma bytes_ltb_asym a b : bytes_ltb a b = true -> bytes_ltb b a = false.
Proof. intros H. destruct (bytes_ltb b a) eqn:E; [|reflexivity].
  pose proof (bytes_ltb_trans _ _ _ H E) as C. rewrite bytes_ltb_irrefl in C. discriminate. Qed.
Lemma bytes_leb_total a b : bytes_leb a b = true \/ bytes_leb b a = true.
Proof. unfold bytes_leb. destruct (bytes_ltb b a) eqn:E; [right; rewrite (bytes_ltb_asym _ _ E); reflexivity | left; reflexivity]. Qed.
Lemma bytes_leb_antisym a b : bytes_leb a b = true -> bytes_leb b a = true -> a = b.
Proof. unfold bytes_leb. intros H1 H2. apply bytes_ltb_total; [destruct (bytes_ltb a b); [discriminate|reflexivity] | destruct (bytes_ltb b a); [discriminate|reflexivity]]. Qed.
Lemma bytes_leb_trans a b c : bytes_leb a b = true -> bytes_leb b c = true -> bytes_leb a c = true.
Proof. unfold bytes_leb. intros H1 H2. destruct (bytes_ltb c a) eqn:E; [|reflexivity]. exfalso.
  destruct (bytes_ltb b a) eqn:E1; [discriminate|]. destruct (bytes_ltb c b) eqn:E2; [discriminate|].
  destruct (bytes_ltb a b) eqn:E3.
  - pose proof (bytes_ltb_trans _ _ _ E E3) as C. congruence.
  - assert (a = b) by (apply bytes_ltb_total; assumption). subst. congruence. Qed.

(* floats: sort.Float64s orders by <; on NaN-free data that is the order of the sign-magnitude key *)
Definition fkey_leb (a b : Z) : bool := fkey a <=? fkey b.
Lemma fkey_leb_total a b : fkey_leb a b = true \/ fkey_leb b a = true. Proof. unfold fkey_leb. lia. Qed.
Lemma fkey_leb_trans a b c : fkey_leb a b = true -> fkey_leb b c = true -> fkey_leb a c = true. Proof. unfold fkey_leb. lia. Qed.

(* ---------- List.Sort ---------- *)
Definition strs_of (l : list val) : list bytes := flat_map (fun v => match v with VStr s => [s] | _ => [] end) l.
Definition ints_of' (l : list val) : list Z := flat_map (fun v => match v with VInt z => [z] | _ => [] end) l.
Definition floats_of (l : list val) : list Z := flat_map (fun v => match v with VFloat b => [b] | _ => [] end) l.

(* switch on the FIRST element's type; the typed slice keeps only the elements of that kind (others are silently dropped:
   outside the property's domain, inside the model); ego.val[0] on an empty list is a runtime panic *)
Definition sort_model (l : list val) : res (list val) :=
  match l with
  | VStr _ :: _ => Ok (map VStr (isort bytes_leb (strs_of l)))
  | VInt _ :: _ => Ok (map VInt (isort Z.leb (ints_of' l)))
  | VFloat _ :: _ => Ok (map VFloat (isort fkey_leb (floats_of l)))
  | _ => Panic
  end.

Definition homog (k : kind) (l : list val) : bool := forallb (fun v => kind_eqb (kind_of v) k) l.

Lemma strs_of_homog l : homog KString l = true -> map VStr (strs_of l) = l.
Proof. induction l as [|v l IH]; simpl; [reflexivity|]. intros H. apply andb_true_iff in H as [Hv Hl].
  destruct v; simpl in Hv; try discriminate. simpl. rewrite IH by exact Hl. reflexivity. Qed.
Lemma ints_of_homog l : homog KInt l = true -> map VInt (ints_of' l) = l.
Proof. induction l as [|v l IH]; simpl; [reflexivity|]. intros H. apply andb_true_iff in H as [Hv Hl].
  destruct v; simpl in Hv; try discriminate. simpl. rewrite IH by exact Hl. reflexivity. Qed.
Lemma floats_of_homog l : homog KFloat l = true -> map VFloat (floats_of l) = l.
Proof. induction l as [|v l IH]; simpl; [reflexivity|]. intros H. apply andb_true_iff in H as [Hv Hl].
  destruct v; simpl in Hv; try discriminate. simpl. rewrite IH by exact Hl. reflexivity. Qed.
Lemma strs_of_map l : strs_of (map VStr l) = l. Proof. induction l; simpl; congruence. Qed.
Lemma ints_of_map l : ints_of' (map VInt l) = l. Proof. induction l; simpl; congruence. Qed.
Lemma floats_of_map l : floats_of (map VFloat l) = l. Proof. induction l; simpl; congruence. Qed.

(* element order used in the statement: ints by <=, strings bytewise, floats by Go's <= on non-NaN values *)
Definition val_leb (a b : val) : bool :=
  match a, b with
  | VInt x, VInt y => x <=? y
  | VStr x, VStr y => bytes_leb x y
  | VFloat x, VFloat y => fkey_leb x y
  | _, _ => false
  end.

Lemma StronglySorted_map {A B} (f : A -> B) (R : A -> A -> Prop) (R' : B -> B -> Prop) l :
  (forall a b, R a b -> R' (f a) (f b)) -> StronglySorted R l -> StronglySorted R' (map f l).
Proof. intros H S. induction S as [|a l S IH Hall]; simpl; constructor; [exact IH|].
  rewrite Forall_forall in *. intros y Hy. apply in_map_iff in Hy as [x [<- Hx]]. apply H. apply Hall. exact Hx. Qed.

(* what Sort returns on a non-empty homogeneous list *)
Lemma sort_model_str s l : sort_model (VStr s :: l) = Ok (map VStr (isort bytes_leb (strs_of (VStr s :: l)))). Proof. reflexivity. Qed.
Lemma sort_model_int z l : sort_model (VInt z :: l) = Ok (map VInt (isort Z.leb (ints_of' (VInt z :: l)))). Proof. reflexivity. Qed.
Lemma sort_model_float b l : sort_model (VFloat b :: l) = Ok (map VFloat (isort fkey_leb (floats_of (VFloat b :: l)))). Proof. reflexivity. Qed.

Theorem sort_perm k l : (k = KString \/ k = KInt \/ k = KFloat) -> l <> [] -> homog k l = true ->
  exists l', sort_model l = Ok l' /\ Permutation l l' /\ StronglySorted (fun a b => val_leb a b = true) l'.
Proof. intros Hk Hne Hh. destruct l as [|v l]; [congruence|].
  assert (Hv: kind_eqb (kind_of v) k = true) by (simpl in Hh; apply andb_true_iff in Hh as [Hv _]; exact Hv).
  destruct Hk as [ -> | [ -> | -> ] ]; destruct v; simpl in Hv; try discriminate.
  - rewrite sort_model_str. eexists. split; [reflexivity|]. split.
    + rewrite <- (strs_of_homog _ Hh) at 1. apply Permutation_map. apply isort_perm.
    + apply (StronglySorted_map VStr (fun a b => bytes_leb a b = true)); [auto|].
      apply isort_sorted; [apply bytes_leb_total | apply bytes_leb_trans].
  - rewrite sort_model_int. eexists. split; [reflexivity|]. split.
    + rewrite <- (ints_of_homog _ Hh) at 1. apply Permutation_map. apply isort_perm.
    + apply (StronglySorted_map VInt (fun a b => (a <=? b) = true)); [auto|].
      apply isort_sorted; [apply Zleb_total | apply Zleb_trans].
  - rewrite sort_model_float. eexists. split; [reflexivity|]. split.
    + rewrite <- (floats_of_homog _ Hh) at 1. apply Permutation_map. apply isort_perm.
    + apply (StronglySorted_map VFloat (fun a b => fkey_leb a b = true)); [auto|].
      apply isort_sorted; [apply fkey_leb_total | apply fkey_leb_trans]. Qed.

Lemma isort_nonempty {A} (leb : A -> A -> bool) x l : isort leb (x :: l) <> [].
Proof. intros E. pose proof (isort_perm leb (x :: l)) as P. rewrite E in P. apply Permutation_sym, Permutation_nil in P. discriminate. Qed.

Theorem sort_idem k l l' : (k = KString \/ k = KInt \/ k = KFloat) -> l <> [] -> homog k l = true ->
  sort_model l = Ok l' -> sort_model l' = Ok l'.
Proof. intros Hk Hne Hh. destruct l as [|v l]; [congruence|].
  assert (Hv: kind_eqb (kind_of v) k = true) by (simpl in Hh; apply andb_true_iff in Hh as [Hv _]; exact Hv).
  destruct Hk as [ -> | [ -> | -> ] ]; destruct v; simpl in Hv; try discriminate.
  - intros E. rewrite sort_model_str in E. assert (El: l' = map VStr (isort bytes_leb (strs_of (VStr s :: l)))) by congruence. clear E. subst l'.
    destruct (isort bytes_leb (strs_of (VStr s :: l))) as [|x srt] eqn:Es; [exfalso; change (strs_of (VStr s :: l)) with (s :: strs_of l) in Es; revert Es; apply isort_nonempty|].
    cbn [map]. rewrite sort_model_str. change (VStr x :: map VStr srt) with (map VStr (x :: srt)). rewrite strs_of_map, <- Es.
    rewrite isort_idem; [reflexivity | apply bytes_leb_total | apply bytes_leb_trans].
  - intros E. rewrite sort_model_int in E. assert (El: l' = map VInt (isort Z.leb (ints_of' (VInt z :: l)))) by congruence. clear E. subst l'.
    destruct (isort Z.leb (ints_of' (VInt z :: l))) as [|x srt] eqn:Es; [exfalso; change (ints_of' (VInt z :: l)) with (z :: ints_of' l) in Es; revert Es; apply isort_nonempty|].
    cbn [map]. rewrite sort_model_int. change (VInt x :: map VInt srt) with (map VInt (x :: srt)). rewrite ints_of_map, <- Es.
    rewrite isort_idem; [reflexivity | apply Zleb_total | apply Zleb_trans].
  - intros E. rewrite sort_model_float in E. assert (El: l' = map VFloat (isort fkey_leb (floats_of (VFloat bits :: l)))) by congruence. clear E. subst l'.
    destruct (isort fkey_leb (floats_of (VFloat bits :: l))) as [|x srt] eqn:Es; [exfalso; change (floats_of (VFloat bits :: l)) with (bits :: floats_of l) in Es; revert Es; apply isort_nonempty|].
    cbn [map]. rewrite sort_model_float. change (VFloat x :: map VFloat srt) with (map VFloat (x :: srt)). rewrite floats_of_map, <- Es.
    rewrite isort_idem; [reflexivity | apply fkey_leb_total | apply fkey_leb_trans]. Qed.

Theorem sort_reject l : match l with VStr _ :: _ | VInt _ :: _ | VFloat _ :: _ => False | _ => True end -> sort_model l = Panic.
Proof. destruct l as [|v l']; [reflexivity|]. destruct v; simpl; intros H; try reflexivity; contradiction. Qed.

(* any implementation of sort.Ints / sort.Strings that returns a sorted permutation returns exactly what the model returns *)
Theorem sort_unique_ints l s : Permutation l s -> StronglySorted (fun a b => (a <=? b) = true) s -> s = isort Z.leb l.
Proof. intros P S. apply (sorted_perm_unique Z.leb Zleb_total Zleb_antisym); [exact S | apply isort_sorted; [apply Zleb_total | apply Zleb_trans] |].
  eapply Permutation_trans; [apply Permutation_sym; exact P | apply isort_perm]. Qed.
Theorem sort_unique_strings l s : Permutation l s -> StronglySorted (fun a b => bytes_leb a b = true) s -> s = isort bytes_leb l.
Proof. intros P S. apply (sorted_perm_unique bytes_leb bytes_leb_total bytes_leb_antisym); [exact S | apply isort_sorted; [apply bytes_leb_total | apply bytes_leb_trans] |].
  eapply Permutation_trans; [apply Permutation_sym; exact P | apply isort_perm]. Qed.
(* floats: unique up to the sign of zeros (the sequence of sign-magnitude keys is unique) *)
Theorem sort_unique_floats l s : Permutation l s -> StronglySorted (fun a b => fkey_leb a b = true) s ->
  map fkey s = map fkey (isort fkey_leb l).
Proof. intros P S. apply (sorted_perm_unique Z.leb Zleb_total Zleb_antisym).
  - apply (StronglySorted_map fkey (fun a b => fkey_leb a b = true)); [auto | exact S].
  - apply (StronglySorted_map fkey (fun a b => fkey_leb a b = true)); [auto|]. apply isort_sorted; [apply fkey_leb_total | apply fkey_leb_trans].
  - apply Permutation_map. eapply Permutation_trans; [apply Permutation_sym; exact P | apply isort_perm]. Qed.

(* ---------- List.Reverse: for i := n/2-1; i >= 0; i-- { swap(i, n-1-i) } ---------- *)
Definition swap {A} (l : list A) (i j : nat) : list A :=
  match nth_error l i, nth_error l j with
  | Some a, Some b => upd (upd l i b) j a
  | _, _ => l
  end.
Fixpoint rev_loop {A} (n : nat) (k : nat) (l : list A) : list A :=
  match k with O => l | S i => rev_loop n i (swap l i (n - 1 - i)) end.
Definition reverse_model {A} (l : list A) : list A := rev_loop (length l) (length l / 2) l.

Lemma swap_length {A} (l : list A) i j : length (swap l i j) = length l.
Proof. unfold swap. destruct (nth_error l i), (nth_error l j); auto. rewrite !upd_length. reflexivity. Qed.

Lemma nth_error_swap {A} (l : list A) i j p : (i < length l)%nat -> (j < length l)%nat ->
  nth_error (swap l i j) p = if Nat.eqb p j then nth_error l i else if Nat.eqb p i then nth_error l j else nth_error l p.
Proof. intros Hi Hj. unfold swap.
  destruct (nth_error l i) as [a|] eqn:Ea; [|apply nth_error_None in Ea; lia].
  destruct (nth_error l j) as [b|] eqn:Eb; [|apply nth_error_None in Eb; lia].
  destruct (Nat.eqb p j) eqn:E1.
  - apply Nat.eqb_eq in E1. subst p. apply nth_error_upd_eq. rewrite upd_length. exact Hj.
  - apply Nat.eqb_neq in E1. rewrite nth_error_upd_neq by auto.
    destruct (Nat.eqb p i) eqn:E2.
    + apply Nat.eqb_eq in E2. subst p. apply nth_error_upd_eq. exact Hi.
    + apply Nat.eqb_neq in E2. apply nth_error_upd_neq. auto. Qed.

Lemma rev_loop_length {A} n k : forall (l : list A), length (rev_loop n k l) = length l.
Proof. induction k as [|i IH]; intros l; simpl; [reflexivity|]. rewrite IH. apply swap_length. Qed.

Lemma nth_error_oob {A} (l : list A) p : (length l <= p)%nat -> nth_error l p = None.
Proof. apply nth_error_None. Qed.

Lemma rev_loop_nth {A} n k : forall (l : list A) p, length l = n -> (2 * k <= n)%nat -> (p < n)%nat ->
  nth_error (rev_loop n k l) p = if (Nat.ltb p k || Nat.leb (n - k) p)%bool then nth_error l (n - 1 - p) else nth_error l p.
Proof. induction k as [|i IH]; intros l p Hn Hk Hp; simpl.
  - destruct (Nat.leb (n - 0) p) eqn:E; [apply Nat.leb_le in E; lia | reflexivity].
  - rewrite IH by (rewrite ?swap_length; lia).
    assert (Hi: (i < length l)%nat) by lia. assert (Hj: (n - 1 - i < length l)%nat) by lia.
    rewrite !(nth_error_swap l i (n - 1 - i)) by assumption.
    destruct (Nat.ltb p i) eqn:P1; destruct (Nat.leb (n - i) p) eqn:P2; destruct (Nat.ltb p (S i)) eqn:P3; destruct (Nat.leb (n - S i) p) eqn:P4;
      cbn [orb];
      repeat match goal with
      | H : Nat.ltb _ _ = true |- _ => apply Nat.ltb_lt in H
      | H : Nat.ltb _ _ = false |- _ => apply Nat.ltb_ge in H
      | H : Nat.leb _ _ = true |- _ => apply Nat.leb_le in H
      | H : Nat.leb _ _ = false |- _ => apply Nat.leb_gt in H
      end; try lia;
      repeat match goal with
      | |- context [Nat.eqb ?a ?b] => let E := fresh "E" in destruct (Nat.eqb a b) eqn:E; [apply Nat.eqb_eq in E | apply Nat.eqb_neq in E]
      end; try lia; try reflexivity; try (f_equal; lia). Qed.

Lemma nth_error_ext' {A} (l1 l2 : list A) : (forall p, nth_error l1 p = nth_error l2 p) -> l1 = l2.
Proof. revert l2. induction l1 as [|x l1 IH]; intros [|y l2] H; auto.
  - specialize (H O). discriminate.
  - specialize (H O). discriminate.
  - pose proof (H O) as H0. simpl in H0. injection H0 as ->. f_equal. apply IH. intros p. apply (H (S p)). Qed.

Lemma nth_error_rev {A} (l : list A) p : (p < length l)%nat -> nth_error (rev l) p = nth_error l (length l - 1 - p).
Proof. revert p. induction l as [|x l IH]; intros p Hp; simpl in *; [lia|].
  destruct (Nat.ltb p (length l)) eqn:E.
  - apply Nat.ltb_lt in E. rewrite nth_error_app1 by (rewrite rev_length; exact E). rewrite IH by exact E.
    replace (length l - 0 - p)%nat with (S (length l - 1 - p)) by lia. reflexivity.
  - apply Nat.ltb_ge in E. assert (p = length l) by lia. subst p.
    rewrite nth_error_app2 by (rewrite rev_length; lia). rewrite rev_length.
    replace (length l - 0 - length l)%nat with O by lia. rewrite Nat.sub_diag. reflexivity. Qed.

Theorem reverse_model_rev {A} (l : list A) : reverse_model l = rev l.
Proof. unfold reverse_model. apply nth_error_ext'. intros p. set (n := length l).
  assert (H2: (2 * (n / 2) <= n)%nat) by (pose proof (Nat.div_mod n 2); pose proof (Nat.mod_upper_bound n 2); lia).
  destruct (Nat.ltb p n) eqn:Pn.
  - apply Nat.ltb_lt in Pn. rewrite rev_loop_nth by auto. rewrite nth_error_rev by exact Pn. fold n.
    destruct (Nat.ltb p (n / 2) || Nat.leb (n - n / 2) p)%bool eqn:E; [reflexivity|].
    apply orb_false_iff in E as [E1 E2]. apply Nat.ltb_ge in E1. apply Nat.leb_gt in E2.
    f_equal. pose proof (Nat.div_mod n 2). pose proof (Nat.mod_upper_bound n 2). lia.
  - apply Nat.ltb_ge in Pn. rewrite !nth_error_oob; [reflexivity | rewrite rev_length; exact Pn | rewrite rev_loop_length; exact Pn]. Qed.

Theorem reverse_involutive {A} (l : list A) : reverse_model (reverse_model l) = l.
Proof. rewrite !reverse_model_rev. apply rev_involutive. Qed.
Theorem reverse_position {A} (l : list A) i : (i < length l)%nat -> nth_error (reverse_model l) (length l - 1 - i) = nth_error l i.
Proof. intros H. rewrite reverse_model_rev. rewrite nth_error_rev by lia. f_equal. lia. Qed.
