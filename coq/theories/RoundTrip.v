(* RoundTrip.v — composition of the serializer theorems (SerializeProofs),
   the parser correctness theorems (ParserCorrect) and the basic parser
   facts (ParserBasics) into end-to-end round-trip statements. *)
From Anytype Require Import Base FloatBits Value Equality GoInt Utf8 Utf8Proofs GoUnquote Json JsonDoc SerializeProofs ParserBasics ParserCorrect.
From Coq Require Import ZifyBool.
Local Open Scope Z_scope.

(* ---------- val_ok implies the preconditions of veq_refl ---------- *)

Lemma val_ok_wfb_nanfree : forall v, val_ok v = true -> wfb v = true /\ nan_free v = true.
Proof.
  induction v as [ | b | z | b | s | l IH | kvs IH ] using val_ind'; intros H.
  - split; reflexivity.
  - split; reflexivity.
  - split; [ exact H | reflexivity ].
  - cbn [val_ok] in H. apply andb_true_iff in H. destruct H as [Hb Hf].
    split; [ exact Hb | ].
    cbn [nan_free]. rewrite (finite_not_nan b Hf). reflexivity.
  - split; reflexivity.
  - cbn [val_ok] in H. cbn [wfb nan_free].
    induction IH as [ | x xs Hx Hxs IHxs ].
    + split; reflexivity.
    + cbn [forallb] in H. apply andb_true_iff in H. destruct H as [H1 H2].
      destruct (Hx H1) as [Hw Hn]. destruct (IHxs H2) as [Hws Hns].
      cbn [forallb]. rewrite Hw, Hn, Hws, Hns. split; reflexivity.
  - cbn [val_ok] in H. apply andb_true_iff in H. destruct H as [Hnd H].
    cbn [wfb nan_free]. rewrite Hnd. cbn [andb].
    clear Hnd.
    induction IH as [ | x xs Hx Hxs IHxs ].
    + split; reflexivity.
    + cbn [forallb] in H. apply andb_true_iff in H. destruct H as [H1 H2].
      apply andb_true_iff in H1. destruct H1 as [_ H1].
      destruct (Hx H1) as [Hw Hn]. destruct (IHxs H2) as [Hws Hns].
      cbn [forallb]. rewrite Hw, Hn, Hws, Hns. split; reflexivity.
Qed.

Section RT.
  Variable fmt_e fmt_f : Z -> bytes.
  Variable pfloat : bytes -> option Z.
  Notation ser := (ser fmt_e fmt_f).
  Hypothesis F2 : forall b, is_finite b = true -> fbits_ok b = true -> exists n, parse_num_text (ser_float fmt_e fmt_f b) = Some n.
  Hypothesis F1 : forall b, is_finite b = true -> fbits_ok b = true -> pfloat (ser_float fmt_e fmt_f b) = Some b.
  Hypothesis F4 : forall b, is_finite b = true -> fbits_ok b = true -> pint0 (ser_float fmt_e fmt_f b) = None.
  Hypothesis F3 : pfloat (B"true") = None /\ pfloat (B"false") = None.

  (* ---------- (R1) exact round trip ---------- *)

  Theorem roundtrip_list : forall l, val_ok (VList l) = true ->
    exists line, parse_list_top pfloat (ser (VList l)) = POk (VList l) [] line.
  Proof.
    intros l H.
    destruct (ser_render fmt_e fmt_f F2 (VList l) H) as [R O].
    pose proof (denote_doc_of fmt_e fmt_f pfloat F2 F1 F4 (VList l) H) as D.
    rewrite R.
    change (doc_of ser (VList l))
      with (DArr [] (map (fun x : val => (@nil wsc, doc_of ser x, @nil wsc)) l)) in *.
    destruct (parse_list_correct pfloat F3 [] [] _ [] (VList l) O D) as [line P].
    exists line.
    change (render_ws []) with (@nil byte) in P.
    rewrite app_nil_l, app_nil_r in P. exact P.
  Qed.

  Theorem roundtrip_object : forall kvs, val_ok (VObj kvs) = true ->
    exists line, parse_object_top pfloat (ser (VObj kvs)) = POk (VObj kvs) [] line.
  Proof.
    intros kvs H.
    destruct (ser_render fmt_e fmt_f F2 (VObj kvs) H) as [R O].
    pose proof (denote_doc_of fmt_e fmt_f pfloat F2 F1 F4 (VObj kvs) H) as D.
    rewrite R.
    change (doc_of ser (VObj kvs))
      with (DObj [] (map (fun kv : list byte * val =>
              (@nil wsc, sitems_of (length (fst kv)) (fst kv), @nil wsc, @nil wsc,
               doc_of ser (snd kv), @nil wsc)) kvs)) in *.
    destruct (parse_object_correct pfloat F3 [] [] _ [] (VObj kvs) O D) as [line P].
    exists line.
    change (render_ws []) with (@nil byte) in P.
    rewrite app_nil_l, app_nil_r in P. exact P.
  Qed.

  (* ---------- (R2) round trip up to Equals; re-parse ---------- *)

  Corollary roundtrip_equals_list : forall l, val_ok (VList l) = true ->
    exists v' line, parse_list_top pfloat (ser (VList l)) = POk v' [] line
                    /\ veq v' (VList l) = true /\ veq (VList l) v' = true.
  Proof.
    intros l H. destruct (roundtrip_list l H) as [line P].
    destruct (val_ok_wfb_nanfree _ H) as [W N].
    exists (VList l), line. split; [ exact P | ].
    split; apply veq_refl; assumption.
  Qed.

  Corollary roundtrip_equals_object : forall kvs, val_ok (VObj kvs) = true ->
    exists v' line, parse_object_top pfloat (ser (VObj kvs)) = POk v' [] line
                    /\ veq v' (VObj kvs) = true /\ veq (VObj kvs) v' = true.
  Proof.
    intros kvs H. destruct (roundtrip_object kvs H) as [line P].
    destruct (val_ok_wfb_nanfree _ H) as [W N].
    exists (VObj kvs), line. split; [ exact P | ].
    split; apply veq_refl; assumption.
  Qed.

  Corollary reparse_list : forall l, val_ok (VList l) = true ->
    exists v' line line2, parse_list_top pfloat (ser (VList l)) = POk v' [] line
                          /\ parse_list_top pfloat (ser v') = POk v' [] line2.
  Proof.
    intros l H. destruct (roundtrip_list l H) as [line P].
    exists (VList l), line, line. split; exact P.
  Qed.

  Corollary reparse_object : forall kvs, val_ok (VObj kvs) = true ->
    exists v' line line2, parse_object_top pfloat (ser (VObj kvs)) = POk v' [] line
                          /\ parse_object_top pfloat (ser v') = POk v' [] line2.
  Proof.
    intros kvs H. destruct (roundtrip_object kvs H) as [line P].
    exists (VObj kvs), line, line. split; exact P.
  Qed.

  (* ---------- (R3) every proper prefix of a serialization is rejected ---------- *)

  Theorem prefix_rejected_list : forall l p t, val_ok (VList l) = true ->
    ser (VList l) = p ++ t -> t <> [] ->
    forall v' r' l', parse_list_top pfloat p <> POk v' r' l'.
  Proof.
    intros l p t H E Ht.
    destruct (roundtrip_list l H) as [line P]. rewrite E in P.
    exact (proper_prefix_rejected pfloat p t (VList l) line Ht P).
  Qed.

  Theorem prefix_rejected_object : forall kvs p t, val_ok (VObj kvs) = true ->
    ser (VObj kvs) = p ++ t -> t <> [] ->
    forall v' r' l', parse_object_top pfloat p <> POk v' r' l'.
  Proof.
    intros kvs p t H E Ht.
    destruct (roundtrip_object kvs H) as [line P]. rewrite E in P.
    exact (proper_prefix_rejected_obj pfloat p t (VObj kvs) line Ht P).
  Qed.

  Corollary prefix_error_list : forall l p t, val_ok (VList l) = true ->
    ser (VList l) = p ++ t -> t <> [] ->
    exists e at_rest, parse_list_top pfloat p = PErr e at_rest.
  Proof.
    intros l p t H E Ht.
    pose proof (prefix_rejected_list l p t H E Ht) as NOk.
    pose proof (parse_list_top_total pfloat p) as NF.
    destruct (parse_list_top pfloat p) as [ v' r' l' | e at_rest | ] eqn:Q.
    - exfalso. exact (NOk v' r' l' eq_refl).
    - exists e, at_rest. reflexivity.
    - exfalso. exact (NF eq_refl).
  Qed.

  Corollary prefix_error_object : forall kvs p t, val_ok (VObj kvs) = true ->
    ser (VObj kvs) = p ++ t -> t <> [] ->
    exists e at_rest, parse_object_top pfloat p = PErr e at_rest.
  Proof.
    intros kvs p t H E Ht.
    pose proof (prefix_rejected_object kvs p t H E Ht) as NOk.
    pose proof (parse_object_top_total pfloat p) as NF.
    destruct (parse_object_top pfloat p) as [ v' r' l' | e at_rest | ] eqn:Q.
    - exfalso. exact (NOk v' r' l' eq_refl).
    - exists e, at_rest. reflexivity.
    - exfalso. exact (NF eq_refl).
  Qed.

  (* ---------- (R4) re-exports with pfloat instantiated ---------- *)

  Corollary total_list : forall s, parse_list_top pfloat s <> PFuel.
  Proof. exact (parse_list_top_total pfloat). Qed.

  Corollary total_object : forall s, parse_object_top pfloat s <> PFuel.
  Proof. exact (parse_object_top_total pfloat). Qed.

  Corollary utf8_list : forall s v rest line,
    parse_list_top pfloat s = POk v rest line ->
    exists pre used, s = pre ++ "["%byte :: used ++ rest /\ utf8_valid used = true /\
      ~ In "["%byte pre /\ used <> [] /\ line = 1 + count_nl pre + count_nl used.
  Proof. exact (accepted_utf8 pfloat). Qed.

  Corollary utf8_object : forall s v rest line,
    parse_object_top pfloat s = POk v rest line ->
    exists pre used, s = pre ++ "{"%byte :: used ++ rest /\ utf8_valid used = true /\
      ~ In "{"%byte pre /\ used <> [] /\ line = 1 + count_nl pre + count_nl used.
  Proof. exact (accepted_utf8_obj pfloat). Qed.

  Corollary error_line_list : forall s e at_rest,
    parse_list_top pfloat s = PErr e at_rest -> e <> EMissing ->
    exists used, s = used ++ at_rest /\
      match e with
      | EChar _ _ l | EValue _ l => l = 1 + count_nl used
      | _ => True
      end.
  Proof. exact (top_error_line pfloat). Qed.

  Corollary error_line_object : forall s e at_rest,
    parse_object_top pfloat s = PErr e at_rest -> e <> EMissing ->
    exists used, s = used ++ at_rest /\
      match e with
      | EChar _ _ l | EValue _ l => l = 1 + count_nl used
      | _ => True
      end.
  Proof. exact (top_error_line_obj pfloat). Qed.
End RT.

