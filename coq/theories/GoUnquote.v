(* GoUnquote.v — strconv.Unquote for a double-quoted literal (given by its body), and the library's jsonEscapes pre-pass. *)
From Anytype Require Import Base Utf8.
Local Open Scope Z_scope.

Definition unhex (b : byte) : option Z :=
  let z := bZ b in
  if (48 <=? z) && (z <=? 57) then Some (z - 48)
  else if (97 <=? z) && (z <=? 102) then Some (z - 97 + 10)
  else if (65 <=? z) && (z <=? 70) then Some (z - 65 + 10)
  else None.

(* value of exactly n hex digits at the head of s; the rest *)
Fixpoint hex_n (n : nat) (s : bytes) (acc : Z) : option (Z * bytes) :=
  match n with
  | O => Some (acc, s)
  | S k => match s with
           | c :: t => match unhex c with Some d => hex_n k t (acc * 16 + d) | None => None end
           | [] => None
           end
  end.

Definition octal (b : byte) : option Z := let z := bZ b in if (48 <=? z) && (z <=? 55) then Some (z - 48) else None.

(* one UnquoteChar step for the double-quote case: the bytes to append and the rest; None = ErrSyntax *)
Definition unquote_char (s : bytes) : option (bytes * bytes) :=
  match s with
  | [] => None
  | c :: t =>
      if byte_eqb c x22 then None                                   (* a bare quote *)
      else if 128 <=? bZ c then let '(r, n) := decode_rune s in Some (encode_rune r, skipn n s)
      else if negb (byte_eqb c x5c) then Some ([c], t)
      else match t with
           | [] => None
           | e :: u =>
               let z := bZ e in
               if z =? 97 then Some ([x07], u) else if z =? 98 then Some ([x08], u) else if z =? 102 then Some ([x0c], u)
               else if z =? 110 then Some ([x0a], u) else if z =? 114 then Some ([x0d], u) else if z =? 116 then Some ([x09], u)
               else if z =? 118 then Some ([x0b], u)
               else if z =? 120 then (* \xHH : one raw byte *)
                 match hex_n 2 u 0 with Some (v, rest) => Some ([byte_of_Z v], rest) | None => None end
               else if z =? 117 then
                 match hex_n 4 u 0 with Some (v, rest) => if valid_rune v then Some (encode_rune v, rest) else None | None => None end
               else if z =? 85 then
                 match hex_n 8 u 0 with Some (v, rest) => if valid_rune v then Some (encode_rune v, rest) else None | None => None end
               else if (48 <=? z) && (z <=? 55) then
                 match u with
                 | d1 :: d2 :: rest =>
                     match octal d1, octal d2 with
                     | Some a, Some b => let v := ((z - 48) * 8 + a) * 8 + b in if 255 <? v then None else Some ([byte_of_Z v], rest)
                     | _, _ => None
                     end
                 | _ => None
                 end
               else if z =? 92 then Some ([x5c], u)
               else if z =? 34 then Some ([x22], u)
               else None                                             (* every other escape *)
           end
  end.

Fixpoint unquote_loop (fuel : nat) (s : bytes) (acc : bytes) : option bytes :=
  match s with
  | [] => Some acc
  | _ => match fuel with
         | O => None
         | S f => match unquote_char s with
                  | Some (out, rest) => unquote_loop f rest (acc ++ out)
                  | None => None
                  end
         end
  end.

(* strconv.Unquote of the body wrapped in double quotes: a raw newline is a syntax error; the body is valid UTF-8 by construction *)
Definition unquote_body (body : bytes) : option bytes :=
  if existsb (fun c => byte_eqb c x0a) body then None
  else unquote_loop (length body) body [].

(* jsonEscapes (parser.go): backslash-solidus becomes a solidus, a surrogate pair of backslash-u escapes becomes the encoded
   code point, every other backslash-char pair is copied verbatim *)
Fixpoint json_escapes (fuel : nat) (s : bytes) : bytes :=
  match fuel with
  | O => s
  | S f =>
      match s with
      | [] => []
      | c :: t =>
          if negb (byte_eqb c x5c) then c :: json_escapes f t
          else match t with
               | [] => [c]
               | e :: u =>
                   if byte_eqb e x2f then x2f :: json_escapes f u
                   else
                     let pair :=
                       if byte_eqb e x75 then
                         match hex_n 4 u 0 with
                         | Some (hi, r1) =>
                             match r1 with
                             | b1 :: b2 :: r2 =>
                                 if byte_eqb b1 x5c && byte_eqb b2 x75 then
                                   match hex_n 4 r2 0 with
                                   | Some (lo, r3) =>
                                       if (55296 <=? hi) && (hi <? 56320) && (56320 <=? lo) && (lo <? 57344)
                                       then Some (encode_rune ((hi - 55296) * 1024 + (lo - 56320) + 65536), r3) else None
                                   | None => None
                                   end
                                 else None
                             | _ => None
                             end
                         | None => None
                         end
                       else None in
                     match pair with
                     | Some (out, rest) => out ++ json_escapes f rest
                     | None => c :: e :: json_escapes f u
                     end
               end
      end
  end.

(* what the parser stores for an accumulated literal body: the Unquote error is dropped, giving the empty string *)
Definition unescape (buf : bytes) : bytes :=
  match unquote_body (json_escapes (length buf) buf) with Some s => s | None => [] end.
