(* UnquoteProofs.v — the parser's string-literal pipeline (jsonEscapes pre-pass, then strconv.Unquote) computes the
   denotation of the JSON string items; plus the scanner ("chunk") view of a rendered string body. *)
From Anytype Require Import Base Utf8 Utf8Proofs GoUnquote JsonDoc.
From Coq Require Import ZifyBool.
Local Open Scope Z_scope.
Ltac Zify.zify_post_hook ::= Z.div_mod_to_equations.
Arguments json_escapes : simpl never.  Arguments unquote_loop : simpl never.

Definition no_lone (i : sitem) : bool := match i with SLone _ => false | _ => true end.

(* ---------- small byte helpers ---------- *)

Lemma byte_neq_of_bZ : forall a b, bZ a <> bZ b -> a <> b.
Proof. intros a b H E. apply H. rewrite E. reflexivity. Qed.

Lemma byte_eqb_false_bZ : forall a b, bZ a <> bZ b -> byte_eqb a b = false.
Proof. intros a b H. apply byte_eqb_neq. apply byte_neq_of_bZ. exact H. Qed.

Lemma existsb_eqb_false : forall (x : byte) (l : bytes), Forall (fun b => b <> x) l ->
  existsb (fun c => byte_eqb c x) l = false.
Proof. intros x l H. induction H as [|b l Hb Hl IH]; [reflexivity|].
  cbn [existsb]. rewrite IH. apply byte_eqb_neq in Hb. rewrite Hb. reflexivity. Qed.

(* ---------- hex digits ---------- *)

Lemma hexd_byte_cases : forall d, hexd_ok d = true ->
  0 <= hv d < 16 /\
  ((hv d < 10 /\ bZ (hexd_byte d) = 48 + hv d) \/
   (10 <= hv d /\ bZ (hexd_byte d) = 55 + hv d) \/
   (10 <= hv d /\ bZ (hexd_byte d) = 87 + hv d)).
Proof. intros d H. unfold hexd_ok in H. split; [lia|]. unfold hexd_byte.
  destruct (hv d <? 10) eqn:E.
  - left. rewrite bZ_byte_of_Z by lia. lia.
  - destruct (hupper d).
    + right. left. rewrite bZ_byte_of_Z by lia. lia.
    + right. right. rewrite bZ_byte_of_Z by lia. lia. Qed.

(* a hex digit byte is one of 0-9 A-F a-f *)
Lemma hexd_byte_range : forall d, hexd_ok d = true ->
  48 <= bZ (hexd_byte d) <= 57 \/ 65 <= bZ (hexd_byte d) <= 70 \/ 97 <= bZ (hexd_byte d) <= 102.
Proof. intros d H. destruct (hexd_byte_cases d H) as [R K]. lia. Qed.

Lemma unhex_hexd : forall d, hexd_ok d = true -> unhex (hexd_byte d) = Some (hv d).
Proof. intros d H. destruct (hexd_byte_cases d H) as [R K]. unfold unhex. cbv zeta.
  remember (bZ (hexd_byte d)) as z eqn:Ez.
  destruct ((48 <=? z) && (z <=? 57)) eqn:C1; [f_equal; lia|].
  destruct ((97 <=? z) && (z <=? 102)) eqn:C2; [f_equal; lia|].
  destruct ((65 <=? z) && (z <=? 70)) eqn:C3; [f_equal; lia|]. lia. Qed.

Lemma hex4_ok_inv : forall a b c d, hex4_ok (a, b, c, d) = true ->
  hexd_ok a = true /\ hexd_ok b = true /\ hexd_ok c = true /\ hexd_ok d = true.
Proof. intros a b c d H. unfold hex4_ok in H.
  apply andb_true_iff in H as [H Hd]. apply andb_true_iff in H as [H Hc]. apply andb_true_iff in H as [Ha Hb].
  repeat split; assumption. Qed.

Lemma hex_n_hex4 : forall h t, hex4_ok h = true -> hex_n 4 (hex4_bytes h ++ t) 0 = Some (hex4_val h, t).
Proof. intros [[[a b] c] d] t H. apply hex4_ok_inv in H as [Ha [Hb [Hc Hd]]].
  unfold hex4_bytes, hex4_val. cbn [app hex_n].
  rewrite (unhex_hexd a Ha), (unhex_hexd b Hb), (unhex_hexd c Hc), (unhex_hexd d Hd).
  f_equal. Qed.

Lemma hex4_val_range : forall h, hex4_ok h = true -> 0 <= hex4_val h < 65536.
Proof. intros [[[a b] c] d] H. apply hex4_ok_inv in H as [Ha [Hb [Hc Hd]]].
  unfold hexd_ok in Ha, Hb, Hc, Hd. unfold hex4_val. lia. Qed.

Lemma hex4_bytes_Forall : forall (P : byte -> Prop) h, hex4_ok h = true ->
  (forall d, hexd_ok d = true -> P (hexd_byte d)) -> Forall P (hex4_bytes h).
Proof. intros P [[[a b] c] d] H HP. apply hex4_ok_inv in H as [Ha [Hb [Hc Hd]]].
  unfold hex4_bytes. repeat (apply Forall_cons; [apply HP; assumption|]). apply Forall_nil. Qed.

Lemma hex4_bytes_neq : forall h x, hex4_ok h = true ->
  ~ (48 <= bZ x <= 57 \/ 65 <= bZ x <= 70 \/ 97 <= bZ x <= 102) -> Forall (fun b => b <> x) (hex4_bytes h).
Proof. intros h x H Hx. apply hex4_bytes_Forall; [exact H|].
  intros d Hd. pose proof (hexd_byte_range d Hd) as R. apply byte_neq_of_bZ. lia. Qed.

Lemma hex4_bytes_length : forall h, length (hex4_bytes h) = 4%nat.
Proof. intros [[[a b] c] d]. reflexivity. Qed.

(* ---------- bytes of an encoded rune ---------- *)

Lemma encode_rune_bytes : forall r, valid_rune r = true ->
  Forall (fun b => (bZ b = r /\ r < 128) \/ 128 <= bZ b) (encode_rune r).
Proof. intros r V. destruct (Z.ltb_spec r 128) as [L | L].
  - destruct (encode_rune_head_ascii r V L) as [E B]. rewrite E.
    apply Forall_cons; [left; split; assumption|apply Forall_nil].
  - eapply Forall_impl; [|apply encode_rune_nonascii_bytes; [exact V|exact L]].
    intros b Hb. right. exact Hb. Qed.

Lemma encode_rune_bytes_neq : forall r x, valid_rune r = true -> r <> bZ x -> bZ x < 128 ->
  Forall (fun b => b <> x) (encode_rune r).
Proof. intros r x V N A. eapply Forall_impl; [|apply encode_rune_bytes; exact V].
  intros b Hb. cbv beta in Hb. apply byte_neq_of_bZ. lia. Qed.

(* ================= Stage 1: the jsonEscapes pre-pass ================= *)

(* the surrogate-pair test of json_escapes, named *)
Definition je_pair (e : byte) (u : bytes) : option (bytes * bytes) :=
  if byte_eqb e x75 then
    match hex_n 4 u 0 with
    | Some (hi, r1) =>
        match r1 with
        | b1 :: b2 :: r2 =>
            if byte_eqb b1 x5c && byte_eqb b2 x75 then
              match hex_n 4 r2 0 with
              | Some (lo, r3) =>
                  if (55296 <=? hi) && (hi <? 56320) && (56320 <=? lo) && (lo <? 57344)
                  then Some (encode_rune ((hi - 55296) * 1024 + (lo - 56320) + 65536), r3) else None
              | None => None
              end
            else None
        | _ => None
        end
    | None => None
    end
  else None.

Lemma je_0 : forall s, json_escapes 0 s = s.
Proof. reflexivity. Qed.

Lemma je_S : forall f s, json_escapes (S f) s =
  match s with
  | [] => []
  | c :: t =>
      if negb (byte_eqb c x5c) then c :: json_escapes f t
      else match t with
           | [] => [c]
           | e :: u =>
               if byte_eqb e x2f then x2f :: json_escapes f u
               else match je_pair e u with
                    | Some (out, rest) => out ++ json_escapes f rest
                    | None => c :: e :: json_escapes f u
                    end
           end
  end.
Proof. reflexivity. Qed.

Lemma je_nil : forall f, json_escapes f [] = [].
Proof. intros [|f]; reflexivity. Qed.

Lemma hex_n_length : forall n s acc v r, hex_n n s acc = Some (v, r) -> length s = (n + length r)%nat.
Proof. induction n as [|n IH]; intros s acc v r H.
  - cbn [hex_n] in H. injection H as _ ->. reflexivity.
  - cbn [hex_n] in H. destruct s as [|c t]; [discriminate H|].
    destruct (unhex c) as [d|]; [|discriminate H].
    apply IH in H. cbn [length]. lia. Qed.

Lemma je_pair_length : forall e u out rest, je_pair e u = Some (out, rest) -> (length rest < length u)%nat.
Proof. intros e u out rest H. unfold je_pair in H.
  destruct (byte_eqb e x75); [|discriminate H].
  destruct (hex_n 4 u 0) as [[hi r1]|] eqn:H1; [|discriminate H].
  destruct r1 as [|b1 [|b2 r2]]; [discriminate H|discriminate H|].
  destruct (byte_eqb b1 x5c && byte_eqb b2 x75); [|discriminate H].
  destruct (hex_n 4 r2 0) as [[lo r3]|] eqn:H2; [|discriminate H].
  destruct ((55296 <=? hi) && (hi <? 56320) && (56320 <=? lo) && (lo <? 57344)); [|discriminate H].
  injection H as _ <-. apply hex_n_length in H1. apply hex_n_length in H2. cbn [length] in H1. lia. Qed.

(* the result does not depend on the fuel once it covers the input *)
Lemma je_fuel : forall f1 f2 s, (length s <= f1)%nat -> (length s <= f2)%nat ->
  json_escapes f1 s = json_escapes f2 s.
Proof. induction f1 as [|f1 IH]; intros f2 s L1 L2.
  - destruct s as [|c t]; [|cbn [length] in L1; lia]. rewrite !je_nil. reflexivity.
  - destruct s as [|c t]; [rewrite !je_nil; reflexivity|].
    destruct f2 as [|f2]; [cbn [length] in L2; lia|].
    cbn [length] in L1, L2. rewrite !je_S.
    destruct (negb (byte_eqb c x5c)).
    + f_equal. apply IH; lia.
    + destruct t as [|e u]; [reflexivity|]. cbn [length] in L1, L2.
      destruct (byte_eqb e x2f).
      * f_equal. apply IH; lia.
      * destruct (je_pair e u) as [[out rest]|] eqn:P.
        -- apply je_pair_length in P. f_equal. apply IH; lia.
        -- f_equal. f_equal. apply IH; lia. Qed.

(* a backslash-free prefix is copied verbatim *)
Lemma je_copy : forall p rest f, Forall (fun b => b <> x5c) p -> (length (p ++ rest) <= f)%nat ->
  json_escapes f (p ++ rest) = p ++ json_escapes (length rest) rest.
Proof. induction p as [|c p IH]; intros rest f H L.
  - cbn [app] in *. apply je_fuel; lia.
  - cbn [app length] in *. destruct f as [|f]; [lia|].
    inversion H as [|c' p' Hc Hp]; subst c' p'.
    rewrite je_S. apply byte_eqb_neq in Hc. rewrite Hc. cbn [negb].
    f_equal. apply IH; [exact Hp|lia]. Qed.

Lemma je_step_solidus : forall f u, json_escapes (S f) (x5c :: x2f :: u) = x2f :: json_escapes f u.
Proof. reflexivity. Qed.

Lemma je_step_other : forall f e u, byte_eqb e x2f = false -> byte_eqb e x75 = false ->
  json_escapes (S f) (x5c :: e :: u) = x5c :: e :: json_escapes f u.
Proof. intros f e u H1 H2. rewrite je_S. change (byte_eqb x5c x5c) with true. cbn [negb].
  rewrite H1. unfold je_pair. rewrite H2. reflexivity. Qed.

Lemma je_step_u_nopair : forall f u, je_pair x75 u = None ->
  json_escapes (S f) (x5c :: x75 :: u) = x5c :: x75 :: json_escapes f u.
Proof. intros f u H. rewrite je_S. change (byte_eqb x5c x5c) with true. cbn [negb].
  change (byte_eqb x75 x2f) with false. cbv iota. rewrite H. reflexivity. Qed.

Lemma je_step_pair : forall f u out rest, je_pair x75 u = Some (out, rest) ->
  json_escapes (S f) (x5c :: x75 :: u) = out ++ json_escapes f rest.
Proof. intros f u out rest H. rewrite je_S. change (byte_eqb x5c x5c) with true. cbn [negb].
  change (byte_eqb x75 x2f) with false. cbv iota. rewrite H. reflexivity. Qed.

Lemma je_pair_not_high : forall h rest, hex4_ok h = true -> is_high (hex4_val h) = false ->
  je_pair x75 (hex4_bytes h ++ rest) = None.
Proof. intros h rest H Hh. unfold je_pair. change (byte_eqb x75 x75) with true. cbv iota.
  rewrite hex_n_hex4 by exact H.
  destruct rest as [|b1 [|b2 r2]]; [reflexivity|reflexivity|].
  destruct (byte_eqb b1 x5c && byte_eqb b2 x75); [|reflexivity].
  destruct (hex_n 4 r2 0) as [[lo r3]|]; [|reflexivity].
  unfold is_high in Hh. rewrite Hh. reflexivity. Qed.

Lemma je_pair_pair : forall hi lo rest, hex4_ok hi = true -> hex4_ok lo = true ->
  is_high (hex4_val hi) = true -> is_low (hex4_val lo) = true ->
  je_pair x75 (hex4_bytes hi ++ x5c :: x75 :: hex4_bytes lo ++ rest) =
  Some (encode_rune ((hex4_val hi - 55296) * 1024 + (hex4_val lo - 56320) + 65536), rest).
Proof. intros hi lo rest Hhi Hlo Vh Vl. unfold je_pair. change (byte_eqb x75 x75) with true. cbv iota.
  rewrite hex_n_hex4 by exact Hhi.
  change (byte_eqb x5c x5c) with true. cbn [andb].
  rewrite hex_n_hex4 by exact Hlo.
  unfold is_high in Vh. unfold is_low in Vl.
  replace ((55296 <=? hex4_val hi) && (hex4_val hi <? 56320) && (56320 <=? hex4_val lo) && (hex4_val lo <? 57344))
    with true by lia.
  reflexivity. Qed.

(* the Go-level rendering of an item after the pre-pass *)
Definition pre_item (i : sitem) : bytes :=
  match i with
  | SChar r => encode_rune r
  | SEsc ESolidus => [x2f]
  | SEsc e => [x5c; esc_letter e]
  | SU h => x5c :: x75 :: hex4_bytes h
  | SPair hi lo => encode_rune ((hex4_val hi - 55296) * 1024 + (hex4_val lo - 56320) + 65536)
  | SLone h => x5c :: x75 :: hex4_bytes h
  end.

Lemma sitem_ok_char : forall r, sitem_ok (SChar r) = true -> valid_rune r = true /\ 32 <= r /\ r <> 34 /\ r <> 92.
Proof. intros r H. cbn [sitem_ok] in H.
  apply andb_true_iff in H as [H H4]. apply andb_true_iff in H as [H H3]. apply andb_true_iff in H as [H1 H2].
  split; [exact H1|]. lia. Qed.

Lemma sitem_ok_u : forall h, sitem_ok (SU h) = true ->
  hex4_ok h = true /\ is_high (hex4_val h) = false /\ is_low (hex4_val h) = false.
Proof. intros h H. cbn [sitem_ok] in H.
  apply andb_true_iff in H as [H H3]. apply andb_true_iff in H as [H1 H2].
  apply negb_true_iff in H2. apply negb_true_iff in H3. repeat split; assumption. Qed.

Lemma sitem_ok_pair : forall hi lo, sitem_ok (SPair hi lo) = true ->
  hex4_ok hi = true /\ hex4_ok lo = true /\ is_high (hex4_val hi) = true /\ is_low (hex4_val lo) = true.
Proof. intros hi lo H. cbn [sitem_ok] in H.
  apply andb_true_iff in H as [H H4]. apply andb_true_iff in H as [H H3]. apply andb_true_iff in H as [H1 H2].
  repeat split; assumption. Qed.

Lemma je_item : forall i rest f, sitem_ok i = true -> no_lone i = true ->
  (length (render_sitem i ++ rest) <= f)%nat ->
  json_escapes f (render_sitem i ++ rest) = pre_item i ++ json_escapes (length rest) rest.
Proof. intros i rest f Hok Hnl L. destruct i as [r | e | h | hi lo | h].
  - (* SChar *) apply sitem_ok_char in Hok as [V [R32 [R34 R92]]]. cbn [render_sitem pre_item] in *.
    apply je_copy; [|exact L]. apply encode_rune_bytes_neq; [exact V|exact R92|reflexivity].
  - (* SEsc *) cbn [render_sitem app length] in L. destruct f as [|f]; [lia|].
    assert (F : json_escapes f rest = json_escapes (length rest) rest) by (apply je_fuel; lia).
    destruct e; cbn [render_sitem pre_item esc_letter app];
      (rewrite je_step_solidus || rewrite je_step_other by reflexivity); rewrite F; reflexivity.
  - (* SU *) apply sitem_ok_u in Hok as [H [Nh Nl]]. cbn [render_sitem pre_item app] in *.
    cbn [length] in L. destruct f as [|f]; [lia|].
    rewrite je_step_u_nopair by (apply je_pair_not_high; assumption).
    f_equal. f_equal. apply je_copy; [|lia].
    apply hex4_bytes_neq; [exact H|]. change (bZ x5c) with 92. lia.
  - (* SPair *) apply sitem_ok_pair in Hok as [Hhi [Hlo [Vh Vl]]]. cbn [render_sitem pre_item app] in *.
    assert (L' : (12 + length rest <= f)%nat).
    { cbn [length] in L. rewrite !app_length in L. cbn [length] in L. rewrite !hex4_bytes_length in L. lia. }
    rewrite <- app_assoc. cbn [app].
    destruct f as [|f]; [lia|].
    rewrite (je_step_pair _ _ _ _ (je_pair_pair hi lo rest Hhi Hlo Vh Vl)).
    f_equal. apply je_fuel; lia.
  - discriminate Hnl. Qed.

Lemma sitems_ok_cons : forall i t, sitems_ok (i :: t) = true -> sitem_ok i = true /\ sitems_ok t = true.
Proof. intros i t H. cbn [sitems_ok] in H.
  apply andb_true_iff in H as [H _]. apply andb_true_iff in H as [H1 H2]. split; assumption. Qed.

Lemma je_items : forall items f, sitems_ok items = true -> forallb no_lone items = true ->
  (length (flat_map render_sitem items) <= f)%nat ->
  json_escapes f (flat_map render_sitem items) = flat_map pre_item items.
Proof. induction items as [|i t IH]; intros f Hok Hnl L.
  - cbn [flat_map]. apply je_nil.
  - apply sitems_ok_cons in Hok as [Hi Ht]. cbn [forallb] in Hnl. apply andb_true_iff in Hnl as [Ni Nt].
    cbn [flat_map] in *. rewrite je_item by assumption.
    f_equal. apply IH; [exact Ht|exact Nt|lia]. Qed.

(* ================= Stage 2: strconv.Unquote on the pre-passed body ================= *)

Lemma ul_nil : forall f acc, unquote_loop f [] acc = Some acc.
Proof. intros [|f] acc; reflexivity. Qed.

Lemma ul_step : forall f s acc out rest, unquote_char s = Some (out, rest) ->
  unquote_loop (S f) s acc = unquote_loop f rest (acc ++ out).
Proof. intros f s acc out rest H. destruct s as [|c t]; [discriminate H|].
  change (unquote_loop (S f) (c :: t) acc) with
    (match unquote_char (c :: t) with Some (o, r) => unquote_loop f r (acc ++ o) | None => None end).
  rewrite H. reflexivity. Qed.

Lemma uc_ascii : forall c t, bZ c < 128 -> c <> x22 -> c <> x5c -> unquote_char (c :: t) = Some ([c], t).
Proof. intros c t A Q Bs. unfold unquote_char.
  apply byte_eqb_neq in Q. apply byte_eqb_neq in Bs. rewrite Q.
  replace (128 <=? bZ c) with false by lia. rewrite Bs. reflexivity. Qed.

Lemma uc_nonascii : forall c t, 128 <= bZ c ->
  unquote_char (c :: t) = let '(r, n) := decode_rune (c :: t) in Some (encode_rune r, skipn n (c :: t)).
Proof. intros c t A. unfold unquote_char.
  rewrite (byte_eqb_false_bZ c x22) by (change (bZ x22) with 34; lia).
  replace (128 <=? bZ c) with true by lia. reflexivity. Qed.

Lemma uc_rune_nonascii : forall r rest, valid_rune r = true -> 128 <= r ->
  unquote_char (encode_rune r ++ rest) = Some (encode_rune r, rest).
Proof. intros r rest V A.
  pose proof (encode_rune_nonascii_bytes r V A) as F.
  destruct (encode_rune r) as [|c t] eqn:E; [exfalso; exact (encode_rune_nonnil r E)|].
  inversion F as [|c' t' Hc Ht]; subst c' t'.
  cbn [app]. rewrite uc_nonascii by exact Hc.
  change (c :: t ++ rest) with ((c :: t) ++ rest). rewrite <- E.
  rewrite decode_encode by exact V. rewrite skipn_length_app. reflexivity. Qed.

Lemma uc_rune_ascii : forall r rest, valid_rune r = true -> r < 128 -> r <> 34 -> r <> 92 ->
  unquote_char (encode_rune r ++ rest) = Some (encode_rune r, rest).
Proof. intros r rest V A Q Bs. destruct (encode_rune_head_ascii r V A) as [E Bz]. rewrite E. cbn [app].
  apply uc_ascii; [lia | apply byte_neq_of_bZ; rewrite Bz; change (bZ x22) with 34; lia
                       | apply byte_neq_of_bZ; rewrite Bz; change (bZ x5c) with 92; lia]. Qed.

Lemma uc_rune : forall r rest, valid_rune r = true -> r <> 34 -> r <> 92 ->
  unquote_char (encode_rune r ++ rest) = Some (encode_rune r, rest).
Proof. intros r rest V Q Bs. destruct (Z.ltb_spec r 128) as [L | L].
  - apply uc_rune_ascii; assumption.
  - apply uc_rune_nonascii; assumption. Qed.

Lemma uc_u : forall u, unquote_char (x5c :: x75 :: u) =
  match hex_n 4 u 0 with
  | Some (v, rest) => if valid_rune v then Some (encode_rune v, rest) else None
  | None => None
  end.
Proof. reflexivity. Qed.

Lemma uc_item : forall i, sitem_ok i = true -> no_lone i = true ->
  exists d, denote_sitem i = Some d /\ forall rest, unquote_char (pre_item i ++ rest) = Some (d, rest).
Proof. intros i Hok Hnl. destruct i as [r | e | h | hi lo | h].
  - apply sitem_ok_char in Hok as [V [R32 [R34 R92]]]. exists (encode_rune r). split; [reflexivity|].
    intros rest. cbn [pre_item]. apply uc_rune; assumption.
  - exists [esc_value e]. split; [reflexivity|]. intros rest. destruct e; reflexivity.
  - apply sitem_ok_u in Hok as [H [Nh Nl]]. exists (encode_rune (hex4_val h)). split; [reflexivity|].
    intros rest. cbn [pre_item app]. rewrite uc_u. rewrite hex_n_hex4 by exact H.
    pose proof (hex4_val_range h H) as R. unfold is_high in Nh. unfold is_low in Nl.
    rewrite valid_rune_intro by lia. reflexivity.
  - apply sitem_ok_pair in Hok as [Hhi [Hlo [Vh Vl]]].
    exists (encode_rune ((hex4_val hi - 55296) * 1024 + (hex4_val lo - 56320) + 65536)). split; [reflexivity|].
    intros rest. cbn [pre_item]. unfold is_high in Vh. unfold is_low in Vl.
    apply uc_rune_nonascii; [apply valid_rune_intro; lia|lia].
  - discriminate Hnl. Qed.

Lemma pre_item_length : forall i, (1 <= length (pre_item i))%nat.
Proof. intros [r | e | h | hi lo | h]; cbn [pre_item]; try (cbn [length]; lia).
  - apply encode_rune_length.
  - destruct e; cbn [length]; lia.
  - apply encode_rune_length. Qed.

Lemma ul_items : forall items f acc, sitems_ok items = true -> forallb no_lone items = true ->
  (length (flat_map pre_item items) <= f)%nat ->
  exists s, denote_string items = Some s /\ unquote_loop f (flat_map pre_item items) acc = Some (acc ++ s).
Proof. induction items as [|i t IH]; intros f acc Hok Hnl L.
  - exists []. split; [reflexivity|]. cbn [flat_map]. rewrite ul_nil. rewrite app_nil_r. reflexivity.
  - apply sitems_ok_cons in Hok as [Hi Ht]. cbn [forallb] in Hnl. apply andb_true_iff in Hnl as [Ni Nt].
    destruct (uc_item i Hi Ni) as [d [Di Ui]].
    cbn [flat_map] in *. rewrite app_length in L. pose proof (pre_item_length i) as P.
    destruct f as [|f]; [lia|].
    destruct (IH f (acc ++ d) Ht Nt) as [s [Ds Us]]; [lia|].
    exists (d ++ s). split.
    + cbn [denote_string]. rewrite Di, Ds. reflexivity.
    + rewrite (ul_step _ _ _ _ _ (Ui _)). rewrite Us. rewrite app_assoc. reflexivity. Qed.

(* no raw newline in the pre-passed body *)
Lemma pre_item_no_nl : forall i, sitem_ok i = true -> no_lone i = true -> Forall (fun b => b <> x0a) (pre_item i).
Proof. intros i Hok Hnl. destruct i as [r | e | h | hi lo | h].
  - apply sitem_ok_char in Hok as [V [R32 [R34 R92]]]. cbn [pre_item].
    apply encode_rune_bytes_neq; [exact V|change (bZ x0a) with 10; lia|reflexivity].
  - destruct e; cbn [pre_item esc_letter]; repeat (apply Forall_cons; [discriminate|]); apply Forall_nil.
  - apply sitem_ok_u in Hok as [H [Nh Nl]]. cbn [pre_item].
    apply Forall_cons; [discriminate|]. apply Forall_cons; [discriminate|].
    apply hex4_bytes_neq; [exact H|]. change (bZ x0a) with 10. lia.
  - apply sitem_ok_pair in Hok as [Hhi [Hlo [Vh Vl]]]. cbn [pre_item].
    unfold is_high in Vh. unfold is_low in Vl.
    apply encode_rune_bytes_neq; [apply valid_rune_intro; lia|change (bZ x0a) with 10; lia|reflexivity].
  - discriminate Hnl. Qed.

Lemma pre_items_no_nl : forall items, sitems_ok items = true -> forallb no_lone items = true ->
  existsb (fun c => byte_eqb c x0a) (flat_map pre_item items) = false.
Proof. intros items Hok Hnl. apply existsb_eqb_false. revert Hok Hnl.
  induction items as [|i t IH]; intros Hok Hnl; [apply Forall_nil|].
  apply sitems_ok_cons in Hok as [Hi Ht]. cbn [forallb] in Hnl. apply andb_true_iff in Hnl as [Ni Nt].
  cbn [flat_map]. apply Forall_app. split; [apply pre_item_no_nl; assumption|apply IH; assumption]. Qed.

(* ================= Main theorem ================= *)

Theorem unescape_items : forall items, sitems_ok items = true -> forallb no_lone items = true ->
  exists s, denote_string items = Some s /\ unescape (flat_map render_sitem items) = s.
Proof. intros items Hok Hnl.
  destruct (ul_items items (length (flat_map pre_item items)) [] Hok Hnl (Nat.le_refl _)) as [s [Ds Us]].
  exists s. split; [exact Ds|].
  unfold unescape. rewrite je_items by (try assumption; apply Nat.le_refl).
  unfold unquote_body. rewrite pre_items_no_nl by assumption. rewrite Us. reflexivity. Qed.

(* convenient forms *)
Lemma denote_string_some_no_lone : forall items s, denote_string items = Some s -> forallb no_lone items = true.
Proof. induction items as [|i t IH]; intros s H; [reflexivity|].
  cbn [denote_string] in H. cbn [forallb].
  destruct (denote_sitem i) as [a|] eqn:Di; [|discriminate H].
  destruct (denote_string t) as [b|] eqn:Dt; [|discriminate H].
  rewrite (IH b eq_refl). destruct i; try reflexivity. discriminate Di. Qed.

Corollary unescape_items_denote : forall items s, sitems_ok items = true -> denote_string items = Some s ->
  unescape (flat_map render_sitem items) = s.
Proof. intros items s Hok D.
  destruct (unescape_items items Hok (denote_string_some_no_lone items s D)) as [s' [D' U]].
  rewrite D in D'. injection D' as <-. exact U. Qed.

(* ================= The scanner view of a rendered string body ================= *)

(* what a char-by-char scanner sees: a raw rune, or a backslash plus ONE following char *)
Inductive chunk := CRaw (r : Z) | CEsc (c : byte).

Definition render_chunk (k : chunk) : bytes :=
  match k with CRaw r => encode_rune r | CEsc c => [x5c; c] end.

Definition chunk_ok (k : chunk) : Prop :=
  match k with
  | CRaw r => valid_rune r = true /\ r <> 34 /\ r <> 92
  | CEsc c => bZ c < 128
  end.

Definition hex_chunks (h : hex4) : list chunk :=
  let '(a, b, c, d) := h in
  [CRaw (bZ (hexd_byte a)); CRaw (bZ (hexd_byte b)); CRaw (bZ (hexd_byte c)); CRaw (bZ (hexd_byte d))].

Definition chunks_of (i : sitem) : list chunk :=
  match i with
  | SChar r => [CRaw r]
  | SEsc e => [CEsc (esc_letter e)]
  | SU h => CEsc x75 :: hex_chunks h
  | SPair hi lo => CEsc x75 :: hex_chunks hi ++ CEsc x75 :: hex_chunks lo
  | SLone h => CEsc x75 :: hex_chunks h
  end.

Lemma hexd_chunk : forall d, hexd_ok d = true ->
  render_chunk (CRaw (bZ (hexd_byte d))) = [hexd_byte d] /\ chunk_ok (CRaw (bZ (hexd_byte d))).
Proof. intros d H. pose proof (hexd_byte_range d H) as R. split.
  - cbn [render_chunk]. rewrite encode_rune_1 by lia. rewrite byte_of_Z_bZ. reflexivity.
  - cbn [chunk_ok]. split; [apply valid_rune_intro; lia|lia]. Qed.

Lemma hex_chunks_render : forall h, hex4_ok h = true ->
  flat_map render_chunk (hex_chunks h) = hex4_bytes h /\ Forall chunk_ok (hex_chunks h).
Proof. intros [[[a b] c] d] H. apply hex4_ok_inv in H as [Ha [Hb [Hc Hd]]].
  destruct (hexd_chunk a Ha) as [Ra Ca]. destruct (hexd_chunk b Hb) as [Rb Cb].
  destruct (hexd_chunk c Hc) as [Rc Cc]. destruct (hexd_chunk d Hd) as [Rd Cd].
  unfold hex_chunks, hex4_bytes. split.
  - cbn [flat_map]. rewrite Ra, Rb, Rc, Rd. reflexivity.
  - repeat (apply Forall_cons; [assumption|]). apply Forall_nil. Qed.

Lemma esc_letter_ascii : forall e, bZ (esc_letter e) < 128.
Proof. intros e. destruct e; reflexivity. Qed.

Lemma render_sitem_chunks : forall i, sitem_ok i = true ->
  render_sitem i = flat_map render_chunk (chunks_of i) /\ Forall chunk_ok (chunks_of i).
Proof. intros i Hok. destruct i as [r | e | h | hi lo | h].
  - apply sitem_ok_char in Hok as [V [R32 [R34 R92]]]. cbn [render_sitem chunks_of flat_map render_chunk]. split.
    + rewrite app_nil_r. reflexivity.
    + apply Forall_cons; [|apply Forall_nil]. cbn [chunk_ok]. repeat split; assumption.
  - cbn [render_sitem chunks_of flat_map render_chunk app]. split; [reflexivity|].
    apply Forall_cons; [|apply Forall_nil]. cbn [chunk_ok]. apply esc_letter_ascii.
  - apply sitem_ok_u in Hok as [H _]. destruct (hex_chunks_render h H) as [R C].
    cbn [render_sitem chunks_of flat_map render_chunk app]. rewrite R. split; [reflexivity|].
    apply Forall_cons; [reflexivity|exact C].
  - apply sitem_ok_pair in Hok as [Hhi [Hlo _]].
    destruct (hex_chunks_render hi Hhi) as [Rh Ch]. destruct (hex_chunks_render lo Hlo) as [Rl Cl].
    cbn [render_sitem chunks_of flat_map render_chunk app]. rewrite flat_map_app. cbn [flat_map render_chunk app].
    rewrite Rh, Rl. split; [reflexivity|].
    apply Forall_cons; [reflexivity|]. apply Forall_app. split; [exact Ch|]. apply Forall_cons; [reflexivity|exact Cl].
  - cbn [sitem_ok] in Hok. apply andb_true_iff in Hok as [H _]. destruct (hex_chunks_render h H) as [R C].
    cbn [render_sitem chunks_of flat_map render_chunk app]. rewrite R. split; [reflexivity|].
    apply Forall_cons; [reflexivity|exact C]. Qed.

(* the whole body *)
Lemma render_items_chunks : forall items, sitems_ok items = true ->
  flat_map render_sitem items = flat_map render_chunk (flat_map chunks_of items) /\
  Forall chunk_ok (flat_map chunks_of items).
Proof. induction items as [|i t IH]; intros Hok.
  - split; [reflexivity|apply Forall_nil].
  - apply sitems_ok_cons in Hok as [Hi Ht]. destruct (render_sitem_chunks i Hi) as [Ri Ci].
    destruct (IH Ht) as [Rt Ct]. cbn [flat_map]. rewrite flat_map_app. split.
    + rewrite Ri, Rt. reflexivity.
    + apply Forall_app. split; assumption. Qed.

(* what the scanner needs to know about a raw chunk: it is a well-formed rune encoding containing neither a quote
   nor a backslash byte, and it decodes back to the rune *)
Lemma chunk_raw_bytes : forall r, chunk_ok (CRaw r) ->
  Forall (fun b => b <> x22 /\ b <> x5c) (encode_rune r) /\
  forall rest, decode_rune (encode_rune r ++ rest) = (r, length (encode_rune r)).
Proof. intros r [V [Q Bs]]. split.
  - pose proof (encode_rune_bytes_neq r x22 V Q eq_refl) as F1.
    pose proof (encode_rune_bytes_neq r x5c V Bs eq_refl) as F2.
    rewrite Forall_forall in *. intros b Hb. split; [apply F1|apply F2]; exact Hb.
  - intros rest. apply decode_encode. exact V. Qed.

(* a quote byte occurs in a rendered body only as the char of an escape chunk, i.e. right after a backslash *)
Lemma render_chunk_quote : forall k, chunk_ok k -> forall c, In c (render_chunk k) -> c = x22 ->
  exists e, k = CEsc e /\ e = x22.
Proof. intros k Hk c Hin ->. destruct k as [r | e].
  - destruct (chunk_raw_bytes r Hk) as [F _]. rewrite Forall_forall in F. destruct (F _ Hin) as [N _]. congruence.
  - exists e. split; [reflexivity|]. cbn [render_chunk In] in Hin.
    destruct Hin as [E | [E | []]]; [discriminate E|exact E]. Qed.
