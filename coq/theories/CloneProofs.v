(* CloneProofs.v — Clone (deep copy) on the reference-semantics heap: the clone reads as the same tree, is made
   of fresh cells only, shares nothing with its source, and the two sides are observably independent. *)
From Anytype Require Import Base FloatBits Value Heap HeapProofs.
Local Open Scope nat_scope.
Arguments clone_val : simpl never.  Arguments reify : simpl never.

(* ================= named versions of the nested loops ================= *)
Fixpoint clone_list (f : nat) (h : heap) (l : list hval) : option (heap * list hval) :=
  match l with
  | [] => Some (h, [])
  | x :: t => match clone_val f h x with
              | None => None
              | Some (h1, x') => match clone_list f h1 t with Some (h2, t') => Some (h2, x' :: t') | None => None end
              end
  end.

Fixpoint clone_kvs (f : nat) (h : heap) (l : list (bytes * hval)) : option (heap * list (bytes * hval)) :=
  match l with
  | [] => Some (h, [])
  | (k, x) :: t => match clone_val f h x with
                   | None => None
                   | Some (h1, x') => match clone_kvs f h1 t with Some (h2, t') => Some (h2, (k, x') :: t') | None => None end
                   end
  end.

Fixpoint reify_list (f : nat) (h : heap) (l : list hval) : option (list val) :=
  match l with
  | [] => Some []
  | x :: t => match reify f h x, reify_list f h t with Some x', Some t' => Some (x' :: t') | _, _ => None end
  end.

Fixpoint reify_kvs (f : nat) (h : heap) (l : list (bytes * hval)) : option (list (bytes * val)) :=
  match l with
  | [] => Some []
  | (k, x) :: t => match reify f h x, reify_kvs f h t with Some x', Some t' => Some ((k, x') :: t') | _, _ => None end
  end.

(* the unfolding lemmas need the fixpoints to reduce once *)
Local Arguments clone_val !fuel h v.
Local Arguments reify !fuel h v.

Lemma clone_val_S f h v : clone_val (S f) h v =
  match v with
  | HL id => match get_list h id with
             | None => None
             | Some l => match clone_list f h l with
                         | None => None
                         | Some (h1, l') => Some (h1 ++ [CList l'], HL (length h1))
                         end
             end
  | HO id => match get_obj h id with
             | None => None
             | Some kvs => match clone_kvs f h kvs with
                           | None => None
                           | Some (h1, kvs') => Some (h1 ++ [CObj kvs'], HO (length h1))
                           end
             end
  | _ => Some (h, v)
  end.
Proof. destruct v as [| | | | |id|id]; try reflexivity; cbn [clone_val].
  - destruct (get_list h id) as [l|]; [|reflexivity].
    match goal with |- match ?g h l with _ => _ end = _ => set (go := g) end.
    assert (G: forall l h0, go h0 l = clone_list f h0 l).
    { induction l0 as [|x t IHt]; intros h0; cbn [clone_list]; simpl; [reflexivity|].
      destruct (clone_val f h0 x) as [[h1 x']|]; [|reflexivity]. rewrite IHt. reflexivity. }
    rewrite G. destruct (clone_list f h l) as [[h1 l']|]; reflexivity.
  - destruct (get_obj h id) as [kvs|]; [|reflexivity].
    match goal with |- match ?g h kvs with _ => _ end = _ => set (go := g) end.
    assert (G: forall l h0, go h0 l = clone_kvs f h0 l).
    { induction l as [|[k x] t IHt]; intros h0; cbn [clone_kvs]; simpl; [reflexivity|].
      destruct (clone_val f h0 x) as [[h1 x']|]; [|reflexivity]. rewrite IHt. reflexivity. }
    rewrite G. destruct (clone_kvs f h kvs) as [[h1 l']|]; reflexivity. Qed.

Lemma reify_S f h v : reify (S f) h v =
  match v with
  | HNil => Some VNil | HBool b => Some (VBool b) | HInt z => Some (VInt z) | HFloat b => Some (VFloat b) | HStr s => Some (VStr s)
  | HL id => match get_list h id with
             | None => None
             | Some l => match reify_list f h l with Some l' => Some (VList l') | None => None end
             end
  | HO id => match get_obj h id with
             | None => None
             | Some kvs => match reify_kvs f h kvs with Some kvs' => Some (VObj kvs') | None => None end
             end
  end.
Proof. destruct v as [| | | | |id|id]; try reflexivity; cbn [reify].
  - destruct (get_list h id) as [l|]; [|reflexivity].
    match goal with |- match ?g l with _ => _ end = _ => set (go := g) end.
    assert (G: forall l, go l = reify_list f h l).
    { induction l0 as [|x t IHt]; cbn [reify_list]; simpl; [reflexivity|]. rewrite IHt. reflexivity. }
    rewrite G. reflexivity.
  - destruct (get_obj h id) as [kvs|]; [|reflexivity].
    match goal with |- match ?g kvs with _ => _ end = _ => set (go := g) end.
    assert (G: forall l, go l = reify_kvs f h l).
    { induction l as [|[k x] t IHt]; cbn [reify_kvs]; simpl; [reflexivity|]. rewrite IHt. reflexivity. }
    rewrite G. reflexivity. Qed.

Arguments clone_val : simpl never.
Arguments reify : simpl never.
(* from here on only clone_val_S / reify_S / clone_val_0 / reify_0 unfold the fuelled functions *)

Lemma reify_0 h v : reify 0 h v = None. Proof. reflexivity. Qed.
Lemma clone_val_0 h v : clone_val 0 h v = None. Proof. reflexivity. Qed.

(* ================= basic heap facts ================= *)
Lemma get_list_app h e id l : get_list h id = Some l -> get_list (h ++ e) id = Some l.
Proof. unfold get_list. destruct (nth_error h id) as [c|] eqn:E; [|discriminate].
  rewrite nth_error_app1 by (apply nth_error_Some; congruence). rewrite E. auto. Qed.
Lemma get_obj_app h e id l : get_obj h id = Some l -> get_obj (h ++ e) id = Some l.
Proof. unfold get_obj. destruct (nth_error h id) as [c|] eqn:E; [|discriminate].
  rewrite nth_error_app1 by (apply nth_error_Some; congruence). rewrite E. auto. Qed.
Lemma get_list_lt h id l : get_list h id = Some l -> id < length h.
Proof. unfold get_list. destruct (nth_error h id) as [c|] eqn:E; [|discriminate]. intros _. apply nth_error_Some. congruence. Qed.
Lemma get_obj_lt h id l : get_obj h id = Some l -> id < length h.
Proof. unfold get_obj. destruct (nth_error h id) as [c|] eqn:E; [|discriminate]. intros _. apply nth_error_Some. congruence. Qed.
Lemma get_list_new h l : get_list (h ++ [CList l]) (length h) = Some l.
Proof. unfold get_list. rewrite nth_error_app2 by lia. rewrite Nat.sub_diag. reflexivity. Qed.
Lemma get_obj_new h l : get_obj (h ++ [CObj l]) (length h) = Some l.
Proof. unfold get_obj. rewrite nth_error_app2 by lia. rewrite Nat.sub_diag. reflexivity. Qed.
Lemma get_list_nth h id l : get_list h id = Some l <-> nth_error h id = Some (CList l).
Proof. unfold get_list. destruct (nth_error h id) as [[l0|k0]|]; split; intros H; try discriminate; congruence. Qed.
Lemma get_obj_nth h id l : get_obj h id = Some l <-> nth_error h id = Some (CObj l).
Proof. unfold get_obj. destruct (nth_error h id) as [[l0|k0]|]; split; intros H; try discriminate; congruence. Qed.

Lemma clone_list_extends f : forall l h0 h1 l', clone_list f h0 l = Some (h1, l') -> exists e, h1 = h0 ++ e.
Proof. induction l as [|x t IHt]; intros h0 h1 l' E; cbn [clone_list] in E.
  - injection E as <- <-. exists []. rewrite app_nil_r. reflexivity.
  - destruct (clone_val f h0 x) as [[h2 x']|] eqn:Ex; [|discriminate].
    destruct (clone_list f h2 t) as [[h3 t']|] eqn:Et; [|discriminate]. injection E as <- <-.
    destruct (clone_val_extends _ _ _ _ _ Ex) as [e1 ->]. destruct (IHt _ _ _ Et) as [e2 ->].
    exists (e1 ++ e2). rewrite app_assoc. reflexivity. Qed.
Lemma clone_kvs_extends f : forall l h0 h1 l', clone_kvs f h0 l = Some (h1, l') -> exists e, h1 = h0 ++ e.
Proof. induction l as [|[k x] t IHt]; intros h0 h1 l' E; cbn [clone_kvs] in E.
  - injection E as <- <-. exists []. rewrite app_nil_r. reflexivity.
  - destruct (clone_val f h0 x) as [[h2 x']|] eqn:Ex; [|discriminate].
    destruct (clone_kvs f h2 t) as [[h3 t']|] eqn:Et; [|discriminate]. injection E as <- <-.
    destruct (clone_val_extends _ _ _ _ _ Ex) as [e1 ->]. destruct (IHt _ _ _ Et) as [e2 ->].
    exists (e1 ++ e2). rewrite app_assoc. reflexivity. Qed.

(* ================= (B2) reads only look at existing cells ================= *)
Theorem reify_extends : forall f h e v t, reify f h v = Some t -> reify f (h ++ e) v = Some t.
Proof. induction f as [|f IH]; intros h e v t H; [rewrite reify_0 in H; discriminate|].
  rewrite reify_S in *. destruct v as [| | | | |id|id]; try exact H.
  - destruct (get_list h id) as [l|] eqn:G; [|discriminate]. rewrite (get_list_app _ e _ _ G).
    assert (A: forall l ts, reify_list f h l = Some ts -> reify_list f (h ++ e) l = Some ts).
    { induction l0 as [|x r IHr]; intros ts E; cbn [reify_list] in *; [exact E|].
      destruct (reify f h x) as [x'|] eqn:Ex; [|discriminate].
      destruct (reify_list f h r) as [r'|] eqn:Er; [|discriminate].
      rewrite (IH _ e _ _ Ex), (IHr _ eq_refl). exact E. }
    destruct (reify_list f h l) as [ts|] eqn:E; [|discriminate]. rewrite (A _ _ E). exact H.
  - destruct (get_obj h id) as [l|] eqn:G; [|discriminate]. rewrite (get_obj_app _ e _ _ G).
    assert (A: forall l ts, reify_kvs f h l = Some ts -> reify_kvs f (h ++ e) l = Some ts).
    { induction l0 as [|[k x] r IHr]; intros ts E; cbn [reify_kvs] in *; [exact E|].
      destruct (reify f h x) as [x'|] eqn:Ex; [|discriminate].
      destruct (reify_kvs f h r) as [r'|] eqn:Er; [|discriminate].
      rewrite (IH _ e _ _ Ex), (IHr _ eq_refl). exact E. }
    destruct (reify_kvs f h l) as [ts|] eqn:E; [|discriminate]. rewrite (A _ _ E). exact H. Qed.

Lemma reify_list_extends f h e : forall l ts, reify_list f h l = Some ts -> reify_list f (h ++ e) l = Some ts.
Proof. induction l as [|x r IHr]; intros ts E; cbn [reify_list] in *; [exact E|].
  destruct (reify f h x) as [x'|] eqn:Ex; [|discriminate].
  destruct (reify_list f h r) as [r'|] eqn:Er; [|discriminate].
  rewrite (reify_extends _ _ e _ _ Ex), (IHr _ eq_refl). exact E. Qed.
Lemma reify_kvs_extends f h e : forall l ts, reify_kvs f h l = Some ts -> reify_kvs f (h ++ e) l = Some ts.
Proof. induction l as [|[k x] r IHr]; intros ts E; cbn [reify_kvs] in *; [exact E|].
  destruct (reify f h x) as [x'|] eqn:Ex; [|discriminate].
  destruct (reify_kvs f h r) as [r'|] eqn:Er; [|discriminate].
  rewrite (reify_extends _ _ e _ _ Ex), (IHr _ eq_refl). exact E. Qed.

(* ================= (B2') more fuel never changes a successful read ================= *)
Theorem reify_fuel_mono : forall f f' h v t, f <= f' -> reify f h v = Some t -> reify f' h v = Some t.
Proof. induction f as [|f IH]; intros f' h v t L H; [rewrite reify_0 in H; discriminate|].
  destruct f' as [|f']; [lia|]. assert (L': f <= f') by lia.
  rewrite reify_S in *. destruct v as [| | | | |id|id]; try exact H.
  - destruct (get_list h id) as [l|] eqn:G; [|discriminate].
    assert (A: forall l ts, reify_list f h l = Some ts -> reify_list f' h l = Some ts).
    { induction l0 as [|x r IHr]; intros ts E; cbn [reify_list] in *; [exact E|].
      destruct (reify f h x) as [x'|] eqn:Ex; [|discriminate].
      destruct (reify_list f h r) as [r'|] eqn:Er; [|discriminate].
      rewrite (IH _ _ _ _ L' Ex), (IHr _ eq_refl). exact E. }
    destruct (reify_list f h l) as [ts|] eqn:E; [|discriminate]. rewrite (A _ _ E). exact H.
  - destruct (get_obj h id) as [l|] eqn:G; [|discriminate].
    assert (A: forall l ts, reify_kvs f h l = Some ts -> reify_kvs f' h l = Some ts).
    { induction l0 as [|[k x] r IHr]; intros ts E; cbn [reify_kvs] in *; [exact E|].
      destruct (reify f h x) as [x'|] eqn:Ex; [|discriminate].
      destruct (reify_kvs f h r) as [r'|] eqn:Er; [|discriminate].
      rewrite (IH _ _ _ _ L' Ex), (IHr _ eq_refl). exact E. }
    destruct (reify_kvs f h l) as [ts|] eqn:E; [|discriminate]. rewrite (A _ _ E). exact H. Qed.

(* ================= (B1) the clone reads as the same tree ================= *)
Theorem clone_equal : forall f h v h' v' t, clone_val f h v = Some (h', v') -> reify f h v = Some t -> reify f h' v' = Some t.
Proof. induction f as [|f IH]; intros h v h' v' t C R; [rewrite reify_0 in R; discriminate|].
  rewrite clone_val_S in C. rewrite reify_S in R.
  destruct v as [| | | | |id|id]; try (injection C as <- <-; rewrite reify_S; exact R).
  - destruct (get_list h id) as [l|] eqn:G; [|discriminate].
    destruct (clone_list f h l) as [[h1 l']|] eqn:CL; [|discriminate]. injection C as <- <-.
    destruct (reify_list f h l) as [ts|] eqn:RL; [|discriminate].
    assert (A: forall l h0 h1 l' ts, clone_list f h0 l = Some (h1, l') -> reify_list f h0 l = Some ts -> reify_list f h1 l' = Some ts).
    { clear - IH. induction l as [|x r IHr]; intros h0 h1 l' ts E1 E2; cbn [clone_list reify_list] in *.
      - injection E1 as <- <-. exact E2.
      - destruct (clone_val f h0 x) as [[h2 x']|] eqn:Cx; [|discriminate].
        destruct (clone_list f h2 r) as [[h3 r']|] eqn:Cr; [|discriminate]. injection E1 as <- <-.
        destruct (reify f h0 x) as [tx|] eqn:Rx; [|discriminate].
        destruct (reify_list f h0 r) as [tr|] eqn:Rr; [|discriminate].
        destruct (clone_val_extends _ _ _ _ _ Cx) as [e1 ->].
        destruct (clone_list_extends _ _ _ _ _ Cr) as [e2 ->].
        cbn [reify_list]. rewrite (reify_extends _ _ e2 _ _ (IH _ _ _ _ _ Cx Rx)).
        rewrite (IHr _ _ _ _ Cr (reify_list_extends _ _ e1 _ _ Rr)). exact E2. }
    rewrite reify_S, get_list_new. rewrite (reify_list_extends _ _ _ _ _ (A _ _ _ _ _ CL RL)). exact R.
  - destruct (get_obj h id) as [l|] eqn:G; [|discriminate].
    destruct (clone_kvs f h l) as [[h1 l']|] eqn:CL; [|discriminate]. injection C as <- <-.
    destruct (reify_kvs f h l) as [ts|] eqn:RL; [|discriminate].
    assert (A: forall l h0 h1 l' ts, clone_kvs f h0 l = Some (h1, l') -> reify_kvs f h0 l = Some ts -> reify_kvs f h1 l' = Some ts).
    { clear - IH. induction l as [|[k x] r IHr]; intros h0 h1 l' ts E1 E2; cbn [clone_kvs reify_kvs] in *.
      - injection E1 as <- <-. exact E2.
      - destruct (clone_val f h0 x) as [[h2 x']|] eqn:Cx; [|discriminate].
        destruct (clone_kvs f h2 r) as [[h3 r']|] eqn:Cr; [|discriminate]. injection E1 as <- <-.
        destruct (reify f h0 x) as [tx|] eqn:Rx; [|discriminate].
        destruct (reify_kvs f h0 r) as [tr|] eqn:Rr; [|discriminate].
        destruct (clone_val_extends _ _ _ _ _ Cx) as [e1 ->].
        destruct (clone_kvs_extends _ _ _ _ _ Cr) as [e2 ->].
        cbn [reify_kvs]. rewrite (reify_extends _ _ e2 _ _ (IH _ _ _ _ _ Cx Rx)).
        rewrite (IHr _ _ _ _ Cr (reify_kvs_extends _ _ e1 _ _ Rr)). exact E2. }
    rewrite reify_S, get_obj_new. rewrite (reify_kvs_extends _ _ _ _ _ (A _ _ _ _ _ CL RL)). exact R. Qed.

(* ================= (B3) Clone succeeds on every acyclic value, with the same fuel ================= *)
Theorem clone_total : forall f h v t, reify f h v = Some t -> exists h' v', clone_val f h v = Some (h', v').
Proof. induction f as [|f IH]; intros h v t R; [rewrite reify_0 in R; discriminate|].
  rewrite clone_val_S. rewrite reify_S in R.
  destruct v as [| | | | |id|id]; try (eexists; eexists; reflexivity).
  - destruct (get_list h id) as [l|] eqn:G; [|discriminate].
    destruct (reify_list f h l) as [ts|] eqn:RL; [|discriminate].
    assert (A: forall l h0 ts, reify_list f h0 l = Some ts -> exists h1 l', clone_list f h0 l = Some (h1, l')).
    { clear - IH. induction l as [|x r IHr]; intros h0 ts E; cbn [clone_list reify_list] in *.
      - eexists; eexists; reflexivity.
      - destruct (reify f h0 x) as [tx|] eqn:Rx; [|discriminate].
        destruct (reify_list f h0 r) as [tr|] eqn:Rr; [|discriminate].
        destruct (IH _ _ _ Rx) as [h2 [x' Cx]]. rewrite Cx.
        destruct (clone_val_extends _ _ _ _ _ Cx) as [e1 ->].
        destruct (IHr _ _ (reify_list_extends _ _ e1 _ _ Rr)) as [h3 [r' Cr]]. rewrite Cr.
        eexists; eexists; reflexivity. }
    destruct (A _ _ _ RL) as [h1 [l' CL]]. rewrite CL. eexists; eexists; reflexivity.
  - destruct (get_obj h id) as [l|] eqn:G; [|discriminate].
    destruct (reify_kvs f h l) as [ts|] eqn:RL; [|discriminate].
    assert (A: forall l h0 ts, reify_kvs f h0 l = Some ts -> exists h1 l', clone_kvs f h0 l = Some (h1, l')).
    { clear - IH. induction l as [|[k x] r IHr]; intros h0 ts E; cbn [clone_kvs reify_kvs] in *.
      - eexists; eexists; reflexivity.
      - destruct (reify f h0 x) as [tx|] eqn:Rx; [|discriminate].
        destruct (reify_kvs f h0 r) as [tr|] eqn:Rr; [|discriminate].
        destruct (IH _ _ _ Rx) as [h2 [x' Cx]]. rewrite Cx.
        destruct (clone_val_extends _ _ _ _ _ Cx) as [e1 ->].
        destruct (IHr _ _ (reify_kvs_extends _ _ e1 _ _ Rr)) as [h3 [r' Cr]]. rewrite Cr.
        eexists; eexists; reflexivity. }
    destruct (A _ _ _ RL) as [h1 [l' CL]]. rewrite CL. eexists; eexists; reflexivity. Qed.

(* ================= well-formed heaps, reachability ================= *)
Definition ref_ok (h : heap) (v : hval) : Prop :=
  match v with HL id => exists l, get_list h id = Some l | HO id => exists kvs, get_obj h id = Some kvs | _ => True end.
Definition heap_wf (h : heap) : Prop :=
  forall id, match nth_error h id with
             | Some (CList l) => forall x, In x l -> ref_ok h x
             | Some (CObj kvs) => forall k x, In (k, x) kvs -> ref_ok h x
             | None => True end.
(* container ids reachable from a value *)
Inductive Reach (h : heap) : hval -> nat -> Prop :=
| reach_l_self id : Reach h (HL id) id
| reach_o_self id : Reach h (HO id) id
| reach_l_elem id l x r : get_list h id = Some l -> In x l -> Reach h x r -> Reach h (HL id) r
| reach_o_field id kvs k x r : get_obj h id = Some kvs -> In (k, x) kvs -> Reach h x r -> Reach h (HO id) r.

(* ================= (B4) everything reachable from the clone was allocated by the call ================= *)
(* a reference points at or above n *)
Definition ref_ge (n : nat) (v : hval) : Prop := match v with HL id => n <= id | HO id => n <= id | _ => True end.
Definition stored (x : hval) (c : cell) : Prop :=
  match c with CList l => In x l | CObj kvs => exists k, In (k, x) kvs end.
(* every cell at or above n only holds references at or above n *)
Definition closed_above (n : nat) (h : heap) : Prop :=
  forall id c x, n <= id -> nth_error h id = Some c -> stored x c -> ref_ge n x.

Lemma ref_ge_mono n m v : n <= m -> ref_ge m v -> ref_ge n v.
Proof. destruct v; simpl; auto; lia. Qed.

Lemma closed_above_nil n h : length h <= n -> closed_above n h.
Proof. intros L id c x Li E. assert (id < length h) by (apply nth_error_Some; congruence). lia. Qed.

(* gluing: [h0 ++ e1] closed above |h0| and [(h0 ++ e1) ++ e2] closed above |h0 ++ e1| *)
Lemma closed_above_app h0 e1 e2 :
  closed_above (length h0) (h0 ++ e1) -> closed_above (length (h0 ++ e1)) ((h0 ++ e1) ++ e2) ->
  closed_above (length h0) ((h0 ++ e1) ++ e2).
Proof. intros A B id c x Li E S. destruct (Nat.lt_ge_cases id (length (h0 ++ e1))) as [L|L].
  - rewrite nth_error_app1 in E by exact L. exact (A _ _ _ Li E S).
  - eapply ref_ge_mono; [|exact (B _ _ _ L E S)]. rewrite app_length. lia. Qed.

Lemma closed_above_snoc n h c : n <= length h -> closed_above n h -> (forall x, stored x c -> ref_ge n x) -> closed_above n (h ++ [c]).
Proof. intros L A B id c0 x Li E S. destruct (Nat.lt_ge_cases id (length h)) as [L1|L1].
  - rewrite nth_error_app1 in E by exact L1. exact (A _ _ _ Li E S).
  - rewrite nth_error_app2 in E by exact L1. destruct (id - length h) as [|k]; cbn [nth_error] in E.
    + injection E as <-. exact (B _ S).
    + destruct k; discriminate. Qed.

Lemma clone_closed : forall f h v h' v', clone_val f h v = Some (h', v') ->
  closed_above (length h) h' /\ (match v with HL _ | HO _ => ref_ge (length h) v' | _ => v' = v end).
Proof. induction f as [|f IH]; intros h v h' v' C; [rewrite clone_val_0 in C; discriminate|].
  rewrite clone_val_S in C.
  destruct v as [| | | | |id|id]; try (injection C as <- <-; split; [apply closed_above_nil; lia | reflexivity]).
  - destruct (get_list h id) as [l|] eqn:G; [|discriminate].
    destruct (clone_list f h l) as [[h1 l']|] eqn:CL; [|discriminate]. injection C as <- <-.
    assert (A: forall l h0 h1 l', clone_list f h0 l = Some (h1, l') ->
               closed_above (length h0) h1 /\ forall x, In x l' -> ref_ge (length h0) x).
    { clear - IH. induction l as [|x r IHr]; intros h0 h1 l' E; cbn [clone_list] in E.
      - injection E as <- <-. split; [apply closed_above_nil; lia | intros x []].
      - destruct (clone_val f h0 x) as [[h2 x']|] eqn:Cx; [|discriminate].
        destruct (clone_list f h2 r) as [[h3 r']|] eqn:Cr; [|discriminate]. injection E as <- <-.
        destruct (IH _ _ _ _ Cx) as [A1 B1]. destruct (IHr _ _ _ Cr) as [A2 B2].
        destruct (clone_val_extends _ _ _ _ _ Cx) as [e1 ->].
        destruct (clone_list_extends _ _ _ _ _ Cr) as [e2 ->].
        split; [apply closed_above_app; assumption|].
        intros y [<- | Hy].
        + destruct x; try (rewrite B1; exact I); exact B1.
        + eapply ref_ge_mono; [|exact (B2 _ Hy)]. rewrite app_length. lia. }
    destruct (A _ _ _ _ CL) as [A1 B1]. destruct (clone_list_extends _ _ _ _ _ CL) as [e ->]. split.
    + apply closed_above_snoc; [rewrite app_length; lia | exact A1 | exact B1].
    + simpl. rewrite app_length. lia.
  - destruct (get_obj h id) as [l|] eqn:G; [|discriminate].
    destruct (clone_kvs f h l) as [[h1 l']|] eqn:CL; [|discriminate]. injection C as <- <-.
    assert (A: forall l h0 h1 l', clone_kvs f h0 l = Some (h1, l') ->
               closed_above (length h0) h1 /\ forall k x, In (k, x) l' -> ref_ge (length h0) x).
    { clear - IH. induction l as [|[k x] r IHr]; intros h0 h1 l' E; cbn [clone_kvs] in E.
      - injection E as <- <-. split; [apply closed_above_nil; lia | intros k x []].
      - destruct (clone_val f h0 x) as [[h2 x']|] eqn:Cx; [|discriminate].
        destruct (clone_kvs f h2 r) as [[h3 r']|] eqn:Cr; [|discriminate]. injection E as <- <-.
        destruct (IH _ _ _ _ Cx) as [A1 B1]. destruct (IHr _ _ _ Cr) as [A2 B2].
        destruct (clone_val_extends _ _ _ _ _ Cx) as [e1 ->].
        destruct (clone_kvs_extends _ _ _ _ _ Cr) as [e2 ->].
        split; [apply closed_above_app; assumption|].
        intros k0 y [Hy | Hy].
        + injection Hy as <- <-. destruct x; try (rewrite B1; exact I); exact B1.
        + eapply ref_ge_mono; [|exact (B2 _ _ Hy)]. rewrite app_length. lia. }
    destruct (A _ _ _ _ CL) as [A1 B1]. destruct (clone_kvs_extends _ _ _ _ _ CL) as [e ->]. split.
    + apply closed_above_snoc; [rewrite app_length; lia | exact A1 |]. intros x [k Hx]. exact (B1 _ _ Hx).
    + simpl. rewrite app_length. lia. Qed.

Lemma reach_closed n h : closed_above n h -> forall v r, Reach h v r -> ref_ge n v -> n <= r.
Proof. intros CA v r R. induction R as [id|id|id l x r G I R IHR|id kvs k x r G I R IHR]; intros RG; simpl in RG; try exact RG.
  - apply IHR. apply get_list_nth in G. exact (CA _ _ _ RG G I).
  - apply IHR. apply get_obj_nth in G. apply (CA _ _ _ RG G). exists k. exact I. Qed.

Lemma reach_is_ref h v r : Reach h v r -> match v with HL _ | HO _ => True | _ => False end.
Proof. intros R. destruct R; exact I. Qed.

Theorem clone_fresh : forall f h v h' v' r, clone_val f h v = Some (h', v') -> Reach h' v' r -> length h <= r.
Proof. intros f h v h' v' r C R. destruct (clone_closed _ _ _ _ _ C) as [CA RG].
  apply (reach_closed _ _ CA _ _ R). pose proof (reach_is_ref _ _ _ R) as IR.
  destruct v; try exact RG; subst v'; destruct IR. Qed.

(* ================= (B5) the source stays in the old part of the heap ================= *)
Lemma ref_ok_app h e v : ref_ok h v -> ref_ok (h ++ e) v.
Proof. destruct v as [| | | | |id|id]; simpl; auto; intros [l G]; exists l; [apply get_list_app | apply get_obj_app]; exact G. Qed.

Theorem source_old : forall h e v r, heap_wf h -> ref_ok h v -> Reach (h ++ e) v r -> r < length h.
Proof. intros h e v r WF OK R. revert OK.
  induction R as [id|id|id l x r G I R IHR|id kvs k x r G I R IHR]; intros OK.
  - destruct OK as [l G]. exact (get_list_lt _ _ _ G).
  - destruct OK as [l G]. exact (get_obj_lt _ _ _ G).
  - apply IHR. destruct OK as [l0 G0]. rewrite (get_list_app _ e _ _ G0) in G. injection G as ->.
    apply get_list_nth in G0. pose proof (WF id) as W. rewrite G0 in W. exact (W _ I).
  - apply IHR. destruct OK as [l0 G0]. rewrite (get_obj_app _ e _ _ G0) in G. injection G as ->.
    apply get_obj_nth in G0. pose proof (WF id) as W. rewrite G0 in W. exact (W _ _ I). Qed.

Corollary clone_disjoint : forall f h v h' v' r, heap_wf h -> ref_ok h v -> clone_val f h v = Some (h', v') ->
  Reach h' v r -> Reach h' v' r -> False.
Proof. intros f h v h' v' r WF OK C R1 R2. pose proof (clone_fresh _ _ _ _ _ _ C R2) as L2.
  destruct (clone_val_extends _ _ _ _ _ C) as [e ->]. pose proof (source_old _ _ _ _ WF OK R1) as L1. lia. Qed.

(* ================= (B6) a value's tree depends only on the cells reachable from it ================= *)
Theorem reify_frame : forall f h h' v, (forall r, Reach h v r -> nth_error h' r = nth_error h r) -> reify f h' v = reify f h v.
Proof. induction f as [|f IH]; intros h h' v FR; [reflexivity|].
  rewrite !reify_S. destruct v as [| | | | |id|id]; try reflexivity.
  - assert (G: get_list h' id = get_list h id) by (unfold get_list; rewrite (FR id (reach_l_self _ _)); reflexivity).
    rewrite G. destruct (get_list h id) as [l|] eqn:GL; [|reflexivity].
    assert (A: forall l0, (forall x, In x l0 -> In x l) -> reify_list f h' l0 = reify_list f h l0).
    { induction l0 as [|x t IHt]; intros S; cbn [reify_list]; [reflexivity|].
      rewrite IHt by (intros y Hy; apply S; right; exact Hy).
      rewrite (IH h h' x); [reflexivity|]. intros r Rx. apply FR. eapply reach_l_elem; [exact GL | apply S; left; reflexivity | exact Rx]. }
    rewrite A by auto. reflexivity.
  - assert (G: get_obj h' id = get_obj h id) by (unfold get_obj; rewrite (FR id (reach_o_self _ _)); reflexivity).
    rewrite G. destruct (get_obj h id) as [l|] eqn:GL; [|reflexivity].
    assert (A: forall l0, (forall kx, In kx l0 -> In kx l) -> reify_kvs f h' l0 = reify_kvs f h l0).
    { induction l0 as [|[k x] t IHt]; intros S; cbn [reify_kvs]; [reflexivity|].
      rewrite IHt by (intros y Hy; apply S; right; exact Hy).
      rewrite (IH h h' x); [reflexivity|]. intros r Rx. apply FR. eapply reach_o_field; [exact GL | apply S; left; reflexivity | exact Rx]. }
    rewrite A by auto. reflexivity. Qed.

(* writing a cell reachable from one of (source, clone) leaves the other one observably unchanged *)
Corollary clone_independent_step : forall f h v h' v' id c f2, heap_wf h -> ref_ok h v -> clone_val f h v = Some (h', v') ->
  (Reach h' v' id -> reify f2 (upd h' id c) v = reify f2 h' v) /\ (Reach h' v id -> reify f2 (upd h' id c) v' = reify f2 h' v').
Proof. intros f h v h' v' id c f2 WF OK C. split; intros R; apply reify_frame; intros r Rr; apply nth_error_upd_neq; intros ->.
  - exact (clone_disjoint _ _ _ _ _ _ WF OK C Rr R).
  - exact (clone_disjoint _ _ _ _ _ _ WF OK C R Rr). Qed.

(* ================= (B7) Clone preserves heap well-formedness ================= *)
Lemma heap_wf_snoc h c : heap_wf h -> (forall x, stored x c -> ref_ok h x) -> heap_wf (h ++ [c]).
Proof. intros WF S id. destruct (Nat.lt_ge_cases id (length h)) as [L|L].
  - rewrite nth_error_app1 by exact L. pose proof (WF id) as W. destruct (nth_error h id) as [[l|kvs]|]; [| |exact I].
    + intros x Hx. apply ref_ok_app. exact (W _ Hx).
    + intros k x Hx. apply ref_ok_app. exact (W _ _ Hx).
  - rewrite nth_error_app2 by exact L. destruct (id - length h) as [|k]; cbn [nth_error].
    + destruct c as [l|kvs].
      * intros x Hx. apply ref_ok_app. apply S. exact Hx.
      * intros k x Hx. apply ref_ok_app. apply S. exists k. exact Hx.
    + destruct k; exact I. Qed.

Theorem clone_wf : forall f h v h' v', heap_wf h -> ref_ok h v -> clone_val f h v = Some (h', v') -> heap_wf h' /\ ref_ok h' v'.
Proof. induction f as [|f IH]; intros h v h' v' WF OK C; [rewrite clone_val_0 in C; discriminate|].
  rewrite clone_val_S in C.
  destruct v as [| | | | |id|id]; try (injection C as <- <-; split; [exact WF | exact I]).
  - destruct (get_list h id) as [l|] eqn:G; [|discriminate].
    destruct (clone_list f h l) as [[h1 l']|] eqn:CL; [|discriminate]. injection C as <- <-.
    assert (A: forall l h0 h1 l', heap_wf h0 -> (forall x, In x l -> ref_ok h0 x) -> clone_list f h0 l = Some (h1, l') ->
               heap_wf h1 /\ forall x, In x l' -> ref_ok h1 x).
    { clear - IH. induction l as [|x r IHr]; intros h0 h1 l' W0 O0 E; cbn [clone_list] in E.
      - injection E as <- <-. split; [exact W0 | intros x []].
      - destruct (clone_val f h0 x) as [[h2 x']|] eqn:Cx; [|discriminate].
        destruct (clone_list f h2 r) as [[h3 r']|] eqn:Cr; [|discriminate]. injection E as <- <-.
        destruct (IH _ _ _ _ W0 (O0 _ (or_introl eq_refl)) Cx) as [W2 O2].
        destruct (clone_val_extends _ _ _ _ _ Cx) as [e1 ->].
        assert (O0': forall y, In y r -> ref_ok (h0 ++ e1) y) by (intros y Hy; apply ref_ok_app; apply O0; right; exact Hy).
        destruct (IHr _ _ _ W2 O0' Cr) as [W3 O3].
        destruct (clone_list_extends _ _ _ _ _ Cr) as [e2 ->].
        split; [exact W3|]. intros y [<- | Hy]; [apply ref_ok_app; exact O2 | exact (O3 _ Hy)]. }
    assert (O0: forall x, In x l -> ref_ok h x).
    { apply get_list_nth in G. pose proof (WF id) as W. rewrite G in W. exact W. }
    destruct (A _ _ _ _ WF O0 CL) as [W1 O1]. split.
    + apply heap_wf_snoc; [exact W1 | exact O1].
    + exists l'. apply get_list_new.
  - destruct (get_obj h id) as [l|] eqn:G; [|discriminate].
    destruct (clone_kvs f h l) as [[h1 l']|] eqn:CL; [|discriminate]. injection C as <- <-.
    assert (A: forall l h0 h1 l', heap_wf h0 -> (forall k x, In (k, x) l -> ref_ok h0 x) -> clone_kvs f h0 l = Some (h1, l') ->
               heap_wf h1 /\ forall k x, In (k, x) l' -> ref_ok h1 x).
    { clear - IH. induction l as [|[k x] r IHr]; intros h0 h1 l' W0 O0 E; cbn [clone_kvs] in E.
      - injection E as <- <-. split; [exact W0 | intros k x []].
      - destruct (clone_val f h0 x) as [[h2 x']|] eqn:Cx; [|discriminate].
        destruct (clone_kvs f h2 r) as [[h3 r']|] eqn:Cr; [|discriminate]. injection E as <- <-.
        destruct (IH _ _ _ _ W0 (O0 _ _ (or_introl eq_refl)) Cx) as [W2 O2].
        destruct (clone_val_extends _ _ _ _ _ Cx) as [e1 ->].
        assert (O0': forall k0 y, In (k0, y) r -> ref_ok (h0 ++ e1) y) by (intros k0 y Hy; apply ref_ok_app; apply (O0 k0); right; exact Hy).
        destruct (IHr _ _ _ W2 O0' Cr) as [W3 O3].
        destruct (clone_kvs_extends _ _ _ _ _ Cr) as [e2 ->].
        split; [exact W3|]. intros k0 y [Hy | Hy]; [injection Hy as <- <-; apply ref_ok_app; exact O2 | exact (O3 _ _ Hy)]. }
    assert (O0: forall k x, In (k, x) l -> ref_ok h x).
    { apply get_obj_nth in G. pose proof (WF id) as W. rewrite G in W. exact W. }
    destruct (A _ _ _ _ WF O0 CL) as [W1 O1]. split.
    + apply heap_wf_snoc; [exact W1 |]. intros x [k Hx]. exact (O1 _ _ Hx).
    + exists l'. apply get_obj_new. Qed.

(* ================= at the fuel the interpreter uses (fuel_of h = S (length h)) ================= *)
(* after `Clone r`, both the source and the clone read as the tree the source had before, at the new heap's fuel *)
Corollary clone_equal_step : forall h v h' v' t,
  clone_val (fuel_of h) h v = Some (h', v') -> reify (fuel_of h) h v = Some t ->
  reify (fuel_of h') h' v = Some t /\ reify (fuel_of h') h' v' = Some t.
Proof. intros h v h' v' t C R. pose proof (clone_equal _ _ _ _ _ _ C R) as R'.
  destruct (clone_val_extends _ _ _ _ _ C) as [e ->].
  assert (L: fuel_of h <= fuel_of (h ++ e)) by (unfold fuel_of; rewrite app_length; lia).
  split; [apply (reify_fuel_mono _ _ _ _ _ L); apply reify_extends; exact R | exact (reify_fuel_mono _ _ _ _ _ L R')]. Qed.
