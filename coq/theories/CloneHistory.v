(* CloneHistory.v — Clone independence over a whole HISTORY of later mutations (the single-step version is
   CloneProofs.clone_independent_step): any sequence of cell writes / allocations that stays inside one of the two
   sides (source, clone) leaves the other side observably unchanged (same tree, same reachable cells). *)
From Anytype Require Import Base FloatBits Value Heap HeapProofs CloneProofs.
Local Open Scope nat_scope.
Arguments clone_val : simpl never.  Arguments reify : simpl never.

(* ================= the heap-level model of a mutation sequence ================= *)
Inductive hstep : Type := HWrite (id : nat) (c : cell) | HAlloc (c : cell).

Definition apply_step (h : heap) (s : hstep) : heap :=
  match s with HWrite id c => upd h id c | HAlloc c => h ++ [c] end.

(* ids of the HL/HO values stored in the cell *)
Definition cell_refs (c : cell) : list nat :=
  match c with
  | CList l => flat_map (fun x => match x with HL i | HO i => [i] | _ => [] end) l
  | CObj kvs => flat_map (fun kv => match snd kv with HL i | HO i => [i] | _ => [] end) kvs
  end.

(* all steps are local to the (growing) side S: a write hits a cell of S, an allocated cell joins S, and the
   content stored only refers to existing cells of S *)
Fixpoint run_local (S : nat -> Prop) (h : heap) (steps : list hstep) : Prop :=
  match steps with
  | [] => True
  | HWrite id c :: t => S id /\ id < length h /\ (forall r, In r (cell_refs c) -> S r /\ r < length h) /\ run_local S (upd h id c) t
  | HAlloc c :: t => (forall r, In r (cell_refs c) -> S r /\ r < length h) /\ run_local (fun i => S i \/ i = length h) (h ++ [c]) t
  end.

Definition run_steps (h : heap) (steps : list hstep) : heap := fold_left apply_step steps h.

Lemma run_steps_nil h : run_steps h [] = h. Proof. reflexivity. Qed.
Lemma run_steps_cons h s t : run_steps h (s :: t) = run_steps (apply_step h s) t. Proof. reflexivity. Qed.
Lemma run_steps_app h s1 s2 : run_steps h (s1 ++ s2) = run_steps (run_steps h s1) s2.
Proof. unfold run_steps. apply fold_left_app. Qed.

(* ================= (H3) reachability depends only on the reachable cells ================= *)
Lemma reach_frame_fwd : forall h h' v r, Reach h v r ->
  (forall r0, Reach h v r0 -> nth_error h' r0 = nth_error h r0) -> Reach h' v r.
Proof. intros h h' v r R.
  induction R as [id|id|id l x r G I R IHR|id kvs k x r G I R IHR]; intros FR.
  - apply reach_l_self.
  - apply reach_o_self.
  - apply (reach_l_elem h' id l x r).
    + unfold get_list in *. rewrite (FR id (reach_l_self _ _)). exact G.
    + exact I.
    + apply IHR. intros r0 R0. apply FR. exact (reach_l_elem _ _ _ _ _ G I R0).
  - apply (reach_o_field h' id kvs k x r).
    + unfold get_obj in *. rewrite (FR id (reach_o_self _ _)). exact G.
    + exact I.
    + apply IHR. intros r0 R0. apply FR. exact (reach_o_field _ _ _ _ _ _ G I R0). Qed.

Lemma reach_frame_bwd : forall h h' v r, Reach h' v r ->
  (forall r0, Reach h v r0 -> nth_error h' r0 = nth_error h r0) -> Reach h v r.
Proof. intros h h' v r R.
  induction R as [id|id|id l x r G I R IHR|id kvs k x r G I R IHR]; intros FR.
  - apply reach_l_self.
  - apply reach_o_self.
  - assert (G0: get_list h id = Some l).
    { unfold get_list in *. rewrite <- (FR id (reach_l_self _ _)). exact G. }
    apply (reach_l_elem h id l x r G0 I).
    apply IHR. intros r0 R0. apply FR. exact (reach_l_elem _ _ _ _ _ G0 I R0).
  - assert (G0: get_obj h id = Some kvs).
    { unfold get_obj in *. rewrite <- (FR id (reach_o_self _ _)). exact G. }
    apply (reach_o_field h id kvs k x r G0 I).
    apply IHR. intros r0 R0. apply FR. exact (reach_o_field _ _ _ _ _ _ G0 I R0). Qed.

Lemma reach_frame : forall h h' v, (forall r, Reach h v r -> nth_error h' r = nth_error h r) ->
  forall r, Reach h v r <-> Reach h' v r.
Proof. intros h h' v FR r. split; intros R.
  - exact (reach_frame_fwd _ _ _ _ R FR).
  - exact (reach_frame_bwd _ _ _ _ R FR). Qed.

(* ================= every reachable cell exists in a well-formed heap ================= *)
Lemma reach_lt : forall h v r, heap_wf h -> ref_ok h v -> Reach h v r -> r < length h.
Proof. intros h v r WF OK R. apply (source_old h [] v r WF OK). rewrite app_nil_r. exact R. Qed.

(* ================= one step outside of v's reachable cells ================= *)
Lemma write_outside : forall h v id c f,
  ~ Reach h v id ->
  reify f (upd h id c) v = reify f h v /\ (forall r, Reach (upd h id c) v r <-> Reach h v r).
Proof. intros h v id c f NR.
  assert (FR: forall r, Reach h v r -> nth_error (upd h id c) r = nth_error h r).
  { intros r R. apply nth_error_upd_neq. intros ->. exact (NR R). }
  split; [exact (reify_frame f _ _ _ FR)|]. intros r. symmetry. exact (reach_frame _ _ _ FR r). Qed.

Lemma alloc_outside : forall h v c f,
  (forall r, Reach h v r -> r < length h) ->
  reify f (h ++ [c]) v = reify f h v /\ (forall r, Reach (h ++ [c]) v r <-> Reach h v r).
Proof. intros h v c f LT.
  assert (FR: forall r, Reach h v r -> nth_error (h ++ [c]) r = nth_error h r).
  { intros r R. apply nth_error_app1. exact (LT _ R). }
  split; [exact (reify_frame f _ _ _ FR)|]. intros r. symmetry. exact (reach_frame _ _ _ FR r). Qed.

(* ================= (H1) a history local to S never shows through a value that lives outside S ================= *)
Theorem other_side_unchanged : forall steps (S : nat -> Prop) h v f,
  (forall r, Reach h v r -> ~ S r) ->
  (forall r, Reach h v r -> r < length h) ->
  run_local S h steps ->
  reify f (run_steps h steps) v = reify f h v /\ (forall r, Reach (run_steps h steps) v r <-> Reach h v r).
Proof. induction steps as [|s t IH]; intros S h v f NS LT RL.
  - rewrite run_steps_nil. split; [reflexivity | intros r; reflexivity].
  - rewrite run_steps_cons. destruct s as [id c|c]; cbn [run_local apply_step] in *.
    + destruct RL as [Sid [Lid [_ RLt]]].
      assert (NR: ~ Reach h v id) by (intros R; exact (NS _ R Sid)).
      destruct (write_outside h v id c f NR) as [E1 Q1].
      assert (NS1: forall r, Reach (upd h id c) v r -> ~ S r) by (intros r R; apply NS; apply Q1; exact R).
      assert (LT1: forall r, Reach (upd h id c) v r -> r < length (upd h id c)).
      { intros r R. rewrite upd_length. apply LT. apply Q1. exact R. }
      destruct (IH S (upd h id c) v f NS1 LT1 RLt) as [E2 Q2]. split.
      * rewrite E2. exact E1.
      * intros r. rewrite Q2. apply Q1.
    + destruct RL as [_ RLt].
      destruct (alloc_outside h v c f LT) as [E1 Q1].
      assert (NS1: forall r, Reach (h ++ [c]) v r -> ~ (S r \/ r = length h)).
      { intros r R [Sr | ->].
        - apply Q1 in R. exact (NS _ R Sr).
        - apply Q1 in R. apply LT in R. lia. }
      assert (LT1: forall r, Reach (h ++ [c]) v r -> r < length (h ++ [c])).
      { intros r R. rewrite app_length. apply Q1 in R. apply LT in R. simpl. lia. }
      destruct (IH _ (h ++ [c]) v f NS1 LT1 RLt) as [E2 Q2]. split.
      * rewrite E2. exact E1.
      * intros r. rewrite Q2. apply Q1. Qed.

(* ================= (H2) Clone: a whole history inside one side leaves the other unchanged ================= *)
(* full version: the tree AND the set of reachable cells of the untouched side are preserved *)
Theorem clone_history_independent_full : forall f h v h' v' steps f2, heap_wf h -> ref_ok h v -> clone_val f h v = Some (h', v') ->
  (run_local (fun i => length h <= i) h' steps ->
     reify f2 (run_steps h' steps) v = reify f2 h' v /\ (forall r, Reach (run_steps h' steps) v r <-> Reach h' v r)) /\
  (run_local (fun i => i < length h) h' steps ->
     reify f2 (run_steps h' steps) v' = reify f2 h' v' /\ (forall r, Reach (run_steps h' steps) v' r <-> Reach h' v' r)).
Proof. intros f h v h' v' steps f2 WF OK C.
  destruct (clone_wf _ _ _ _ _ WF OK C) as [WF' OK'].
  pose proof (clone_val_extends _ _ _ _ _ C) as [e He].
  split; intros RL.
  - apply (other_side_unchanged steps (fun i => length h <= i) h' v f2); [| |exact RL].
    + intros r R L. subst h'. pose proof (source_old _ _ _ _ WF OK R). lia.
    + intros r R. subst h'. pose proof (source_old _ _ _ _ WF OK R). rewrite app_length. lia.
  - apply (other_side_unchanged steps (fun i => i < length h) h' v' f2); [| |exact RL].
    + intros r R L. pose proof (clone_fresh _ _ _ _ _ _ C R). lia.
    + intros r R. exact (reach_lt _ _ _ WF' OK' R). Qed.

Theorem clone_history_independent : forall f h v h' v' steps f2, heap_wf h -> ref_ok h v -> clone_val f h v = Some (h', v') ->
  (* mutations inside the clone *)
  (run_local (fun i => length h <= i) h' steps -> reify f2 (run_steps h' steps) v = reify f2 h' v) /\
  (* mutations inside the source side: everything that existed before the call *)
  (run_local (fun i => i < length h) h' steps -> reify f2 (run_steps h' steps) v' = reify f2 h' v').
Proof. intros f h v h' v' steps f2 WF OK C.
  destruct (clone_history_independent_full f h v h' v' steps f2 WF OK C) as [A B].
  split; intros RL; [exact (proj1 (A RL)) | exact (proj1 (B RL))]. Qed.

(* ================= sanity: the hypotheses are satisfiable by a real history ================= *)
(* source [1]; clone it; then, inside the clone, allocate a fresh empty list and store it (nested) in the clone *)
Example history_example :
  let h := [CList [HInt 1%Z]] in
  let steps := [HAlloc (CList []); HWrite 1 (CList [HInt 1%Z; HL 2])] in
  clone_val 2 h (HL 0) = Some ([CList [HInt 1%Z]; CList [HInt 1%Z]], HL 1) /\
  run_local (fun i => length h <= i) [CList [HInt 1%Z]; CList [HInt 1%Z]] steps /\
  reify 3 (run_steps [CList [HInt 1%Z]; CList [HInt 1%Z]] steps) (HL 1) = Some (VList [VInt 1%Z; VList []]) /\
  reify 3 (run_steps [CList [HInt 1%Z]; CList [HInt 1%Z]] steps) (HL 0) = Some (VList [VInt 1%Z]).
Proof. cbv zeta. split; [reflexivity|]. split; [|split; reflexivity].
  cbn [run_local cell_refs flat_map app length upd]. split.
  - intros r [].
  - split; [left; simpl; lia|]. split; [lia|]. split; [|exact I].
    intros r [<- | []]. split; [right; reflexivity | lia]. Qed.
