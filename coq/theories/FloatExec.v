(* FloatExec.v — executable instance of the float-arithmetic oracles, through Coq's primitive IEEE binary64 floats.
   Used only by the correspondence runners (Run*.v); no property theorem depends on this file. *)
From Anytype Require Import Base FloatBits.
From Coq Require Import Floats Uint63.
Local Open Scope Z_scope.

Definition sf_of_bits (b : Z) : spec_float :=
  let s := two63 <=? b in
  let e := f_exp b in
  let m := f_man b in
  if e =? 2047 then (if m =? 0 then S754_infinity s else S754_nan)
  else if e =? 0 then (if m =? 0 then S754_zero s else S754_finite s (Z.to_pos m) (-1074))
  else S754_finite s (Z.to_pos (m + two52)) (e - 1075).

Definition nan_bits : Z := 9221120237041090561. (* 0x7FF8000000000001 *)

Definition bits_of_sf (f : spec_float) : Z :=
  match f with
  | S754_zero s => if s then two63 else 0
  | S754_infinity s => (if s then two63 else 0) + 2047 * two52
  | S754_nan => nan_bits
  | S754_finite s m e =>
      (if s then two63 else 0) + (if Zpos m <? two52 then Zpos m else (e + 1075) * two52 + (Zpos m - two52))
  end.

Definition pf_of_bits (b : Z) : float := SF2Prim (sf_of_bits b).
Definition bits_of_pf (f : float) : Z := bits_of_sf (Prim2SF f).

Definition x_fadd (a b : Z) : Z := bits_of_pf (PrimFloat.add (pf_of_bits a) (pf_of_bits b)).
Definition x_fmul (a b : Z) : Z := bits_of_pf (PrimFloat.mul (pf_of_bits a) (pf_of_bits b)).
Definition x_fdiv (a b : Z) : Z := bits_of_pf (PrimFloat.div (pf_of_bits a) (pf_of_bits b)).
(* float64(int): exact conversion with round-to-nearest-even *)
Definition x_of_int (z : Z) : Z :=
  if z =? - two63 then 14114281232179134464 (* 0xC3E0000000000000 = -2^63 *)
  else if z <? 0 then bits_of_pf (PrimFloat.opp (PrimFloat.of_uint63 (Uint63.of_Z (- z))))
  else bits_of_pf (PrimFloat.of_uint63 (Uint63.of_Z z)).

(* results are compared up to NaN payload *)
Definition fsame (a b : Z) : bool := (FloatBits.is_nan a && FloatBits.is_nan b) || (a =? b).
