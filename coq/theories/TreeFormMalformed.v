(* TreeFormMalformed.v — malformed tree-form strings: TypeOfTF answers Undefined and GetTF panics.
   The only exception (an object key that is empty or starts with '.' / '#', reached through an empty segment)
   is excluded by [heap_keys_plain]. *)
From Anytype Require Import Base FloatBits Value GoInt GoIntProofs Heap TreeFormProofs.
From Coq Require Import ZifyBool.
Local Open Scope Z_scope.
Arguments get_tf : simpl never.  Arguments typeof_tf : simpl never.

Definition sigil (c : byte) : bool := byte_eqb c x2e || byte_eqb c x23.
(* no object in the heap has the empty key or a key starting with a sigil *)
Definition key_plain (k : bytes) : bool := match k with [] => false | c :: _ => negb (sigil c) end.
Definition heap_keys_plain (h : heap) : Prop :=
  forall id kvs k x, get_obj h id = Some kvs -> In (k, x) kvs -> key_plain k = true.
(* the string has an empty segment: it is shorter than two characters, or two sigils are adjacent, or it ends with a sigil *)
Fixpoint adjacent_sigils (s : bytes) : bool :=
  match s with a :: ((b :: _) as t) => (sigil a && sigil b) || adjacent_sigils t | _ => false end.
Definition ends_with_sigil (s : bytes) : bool := match rev s with c :: _ => sigil c | [] => false end.
Definition has_empty_segment (s : bytes) : bool :=
  (Nat.ltb (length s) 2) || adjacent_sigils s || ends_with_sigil s.

(* ---------- from "get_tf panics" to both conclusions ---------- *)
Lemma panic_both fuel h v s : get_tf fuel h v s = Panic ->
  typeof_tf fuel h v s = KUndefined /\ get_tf fuel h v s = Panic.
Proof. intros H. split; [|exact H]. rewrite tf_agree, H. reflexivity. Qed.

(* ================= M3: a scalar receiver ================= *)
Theorem scalar_receiver_undefined : forall fuel h v s,
  (match v with HL _ | HO _ => False | _ => True end) ->
  typeof_tf fuel h v s = KUndefined /\ get_tf fuel h v s = Panic.
Proof.
  intros fuel h v s Hv. apply panic_both.
  destruct fuel as [|f]; [reflexivity|]. rewrite get_tf_S.
  destruct v as [| b | z | bits | str | id | id]; try reflexivity; contradiction.
Qed.

(* ================= M2: wrong leading sigil ================= *)
Lemma valid_head_wrong c s : (forall c' t, s = c' :: t -> byte_eqb c' c = false) -> valid_head c s = None.
Proof. intros H. destruct s as [|c' t]; [reflexivity|]. apply valid_head_other. exact (H c' t eq_refl). Qed.

Theorem wrong_leading_sigil_undefined : forall fuel h id s,
  (forall c t, s = c :: t -> byte_eqb c x23 = false) ->
  typeof_tf fuel h (HL id) s = KUndefined /\ get_tf fuel h (HL id) s = Panic.
Proof.
  intros fuel h id s Hs. apply panic_both.
  destruct fuel as [|f]; [reflexivity|]. rewrite get_tf_S.
  rewrite (valid_head_wrong x23 s Hs). destruct (get_list h id); reflexivity.
Qed.

Theorem wrong_leading_sigil_undefined_obj : forall fuel h id s,
  (forall c t, s = c :: t -> byte_eqb c x2e = false) ->
  typeof_tf fuel h (HO id) s = KUndefined /\ get_tf fuel h (HO id) s = Panic.
Proof.
  intros fuel h id s Hs. apply panic_both.
  destruct fuel as [|f]; [reflexivity|]. rewrite get_tf_S.
  rewrite (valid_head_wrong x2e s Hs). destruct (get_obj h id); reflexivity.
Qed.

(* ================= M4: the first index segment is not an integer ================= *)
Theorem non_numeric_index_undefined : forall fuel h id l s rest,
  get_list h id = Some l -> s = x23 :: rest ->
  (forall seg, (split_tf rest = SegLeaf -> seg = rest) ->
               (forall d, (split_tf rest = SegDot d \/ split_tf rest = SegHash d) -> seg = firstn d rest) ->
               pint0 seg = None) ->
  typeof_tf fuel h (HL id) s = KUndefined /\ get_tf fuel h (HL id) s = Panic.
Proof.
  intros fuel h id l s rest Hl Hs Hseg. apply panic_both. subst s.
  destruct fuel as [|f]; [reflexivity|]. rewrite get_tf_S, Hl.
  destruct rest as [|r0 rest']; [reflexivity|].
  cbn [valid_head]. rewrite byte_eqb_refl.
  destruct (split_tf (r0 :: rest')) as [d|d|] eqn:E.
  - rewrite (Hseg (firstn d (r0 :: rest'))); [reflexivity|discriminate|].
    intros d0 [E'|E']; [injection E' as <-; reflexivity|discriminate].
  - rewrite (Hseg (firstn d (r0 :: rest'))); [reflexivity|discriminate|].
    intros d0 [E'|E']; [discriminate|injection E' as <-; reflexivity].
  - rewrite (Hseg (r0 :: rest')); [reflexivity|reflexivity|].
    intros d0 [E'|E']; discriminate.
Qed.

(* ================= M1: an empty segment ================= *)

(* ---------- string lemmas ---------- *)
Definition plain (w : bytes) : bool := forallb (fun x => negb (sigil x)) w.

Lemma ends_with_sigil_cons2 a b t : ends_with_sigil (a :: b :: t) = ends_with_sigil (b :: t).
Proof. unfold ends_with_sigil. cbn [rev]. destruct (rev t) as [|x r]; reflexivity. Qed.

Lemma ends_with_sigil_one a : ends_with_sigil [a] = sigil a.
Proof. reflexivity. Qed.

Lemma ends_with_sigil_app w u : u <> [] -> ends_with_sigil (w ++ u) = ends_with_sigil u.
Proof. intros Hu. induction w as [|a w IH]; [reflexivity|].
  cbn [app]. destruct (w ++ u) as [|b t] eqn:E.
  - destruct w; destruct u; cbn [app] in E; congruence.
  - rewrite ends_with_sigil_cons2. exact IH. Qed.

Lemma adjacent_sigils_cons_plain a t : sigil a = false -> adjacent_sigils (a :: t) = adjacent_sigils t.
Proof. intros Ha. destruct t as [|b t]; [reflexivity|]. cbn [adjacent_sigils]. rewrite Ha. reflexivity. Qed.

Lemma adjacent_sigils_app_plain w u : plain w = true -> adjacent_sigils (w ++ u) = adjacent_sigils u.
Proof. induction w as [|a w IH]; intros Hw; [reflexivity|].
  unfold plain in Hw. cbn [forallb] in Hw. apply andb_true_iff in Hw as [Ha Hw]. apply negb_true_iff in Ha.
  cbn [app]. rewrite (adjacent_sigils_cons_plain _ _ Ha). exact (IH Hw). Qed.

Lemma adjacent_sigils_head_plain c a t : sigil a = false -> adjacent_sigils (c :: a :: t) = adjacent_sigils (a :: t).
Proof. intros Ha. cbn [adjacent_sigils]. rewrite Ha, andb_false_r. reflexivity. Qed.

(* the two "interesting" disjuncts of has_empty_segment *)
Definition bad (s : bytes) : bool := adjacent_sigils s || ends_with_sigil s.

Lemma bad_has_empty s : bad s = true -> has_empty_segment s = true.
Proof. unfold bad, has_empty_segment. intros H. apply orb_true_iff in H as [H|H]; rewrite H.
  - rewrite orb_true_r. reflexivity.
  - apply orb_true_r. Qed.

Lemma has_empty_long c r0 t : has_empty_segment (c :: r0 :: t) = bad (c :: r0 :: t).
Proof. reflexivity. Qed.

(* dropping the head sigil and a non-empty plain word keeps the defect *)
Lemma bad_suffix c w u : w <> [] -> plain w = true -> u <> [] -> bad (c :: w ++ u) = bad u.
Proof. intros Hne Hw Hu. destruct w as [|a w]; [congruence|]. unfold bad.
  change (c :: (a :: w) ++ u) with ([c] ++ (a :: w) ++ u) at 2.
  rewrite ends_with_sigil_app by (destruct w; discriminate).
  rewrite ends_with_sigil_app by exact Hu.
  pose proof Hw as Hw'. unfold plain in Hw'. cbn [forallb] in Hw'. apply andb_true_iff in Hw' as [Ha _]. apply negb_true_iff in Ha.
  cbn [app]. rewrite (adjacent_sigils_head_plain c a _ Ha).
  change (a :: w ++ u) with ((a :: w) ++ u). rewrite (adjacent_sigils_app_plain _ _ Hw). reflexivity. Qed.

(* a head sigil followed by a non-empty plain word has no empty segment *)
Lemma bad_plain c w : w <> [] -> plain w = true -> bad (c :: w) = false.
Proof. intros Hne Hw. destruct w as [|a w]; [congruence|]. unfold bad.
  pose proof Hw as Hw'. unfold plain in Hw'. cbn [forallb] in Hw'. apply andb_true_iff in Hw' as [Ha _]. apply negb_true_iff in Ha.
  rewrite (adjacent_sigils_head_plain c a _ Ha).
  pose proof (adjacent_sigils_app_plain (a :: w) [] Hw) as E. rewrite app_nil_r in E. rewrite E. cbn [adjacent_sigils orb].
  rewrite ends_with_sigil_cons2.
  (* the last character of a plain word is plain *)
  clear Ha E Hne. revert a Hw. induction w as [|b w IH]; intros a Hw.
  - rewrite ends_with_sigil_one. unfold plain in Hw. cbn [forallb] in Hw. apply andb_true_iff in Hw as [Ha _]. apply negb_true_iff in Ha. exact Ha.
  - rewrite ends_with_sigil_cons2. apply IH. unfold plain in *. cbn [forallb] in Hw. apply andb_true_iff in Hw as [_ Hw]. exact Hw. Qed.

(* index_byte *)
Lemma plain_firstn rest d :
  (forall m, index_byte x2e rest = Some m -> (d <= m)%nat) ->
  (forall m, index_byte x23 rest = Some m -> (d <= m)%nat) ->
  plain (firstn d rest) = true.
Proof. revert rest. induction d as [|d IH]; intros rest H1 H2; [reflexivity|].
  destruct rest as [|x t]; [reflexivity|]. cbn [firstn]. unfold plain. cbn [forallb]. cbn [index_byte] in H1, H2.
  destruct (byte_eqb x x2e) eqn:E1; [specialize (H1 O eq_refl); lia|].
  destruct (byte_eqb x x23) eqn:E2; [specialize (H2 O eq_refl); lia|].
  unfold sigil at 1. rewrite E1, E2. cbn [orb negb andb]. apply IH.
  - intros m Hm. rewrite Hm in H1. specialize (H1 (S m) eq_refl). lia.
  - intros m Hm. rewrite Hm in H2. specialize (H2 (S m) eq_refl). lia. Qed.

Lemma index_byte_skipn c s n : index_byte c s = Some n -> exists t, skipn n s = c :: t.
Proof. revert n. induction s as [|x s IH]; intros n H; [discriminate|]. cbn [index_byte] in H.
  destruct (byte_eqb x c) eqn:E.
  - injection H as <-. apply byte_eqb_eq in E. subst x. exists s. reflexivity.
  - destruct (index_byte c s) as [m|]; [|discriminate]. cbn [option_map] in H. injection H as <-.
    cbn [skipn]. apply IH. reflexivity. Qed.

Lemma index_byte_none_plain rest : index_byte x2e rest = None -> index_byte x23 rest = None -> plain rest = true.
Proof. intros H1 H2. rewrite <- (firstn_all rest). apply plain_firstn; intros m Hm; congruence. Qed.

Lemma index_byte_O c s : index_byte c s = Some O -> exists t, s = c :: t.
Proof. intros H. destruct (index_byte_skipn c s O H) as [t Ht]. exists t. exact Ht. Qed.

(* inversion of split_tf *)
Lemma split_tf_dot_inv rest d : split_tf rest = SegDot d ->
  (0 < d)%nat /\ plain (firstn d rest) = true /\ exists t, skipn d rest = x2e :: t.
Proof. unfold split_tf. intros H.
  destruct (index_byte x2e rest) as [[|dd]|] eqn:E1; destruct (index_byte x23 rest) as [[|hh]|] eqn:E2;
    try (exfalso; cbn in H; discriminate H).
  - destruct (Nat.ltb (S dd) (S hh)) eqn:L; [|discriminate]. injection H as <-. apply Nat.ltb_lt in L.
    split; [lia|]. split; [|exact (index_byte_skipn _ _ _ E1)].
    apply plain_firstn; intros m Hm; rewrite Hm in *; [injection E1 as ->|injection E2 as ->]; lia.
  - injection H as <-. split; [lia|]. split; [|exact (index_byte_skipn _ _ _ E1)].
    apply plain_firstn; intros m Hm; rewrite Hm in *; [injection E1 as ->; lia|discriminate]. Qed.

Lemma index_byte_distinct rest n : index_byte x2e rest = Some n -> index_byte x23 rest = Some n -> False.
Proof. intros H1 H2. destruct (index_byte_skipn _ _ _ H1) as [t1 E1]. destruct (index_byte_skipn _ _ _ H2) as [t2 E2].
  rewrite E1 in E2. discriminate. Qed.

Lemma split_tf_hash_inv rest d : split_tf rest = SegHash d ->
  (0 < d)%nat /\ plain (firstn d rest) = true /\ exists t, skipn d rest = x23 :: t.
Proof. unfold split_tf. intros H.
  destruct (index_byte x2e rest) as [[|dd]|] eqn:E1; destruct (index_byte x23 rest) as [[|hh]|] eqn:E2;
    try (exfalso; cbn in H; discriminate H).
  - destruct (Nat.ltb (S dd) (S hh)) eqn:L; [discriminate|]. injection H as <-. apply Nat.ltb_ge in L.
    assert (S hh <> S dd) by (intros EE; rewrite EE in E2; exact (index_byte_distinct _ _ E1 E2)).
    split; [lia|]. split; [|exact (index_byte_skipn _ _ _ E2)].
    apply plain_firstn; intros m Hm; rewrite Hm in *; [injection E1 as ->|injection E2 as ->]; lia.
  - injection H as <-. split; [lia|]. split; [|exact (index_byte_skipn _ _ _ E2)].
    apply plain_firstn; intros m Hm; rewrite Hm in *; [discriminate|injection E2 as ->; lia]. Qed.

Lemma split_tf_leaf_inv rest : split_tf rest = SegLeaf ->
  (exists c t, rest = c :: t /\ sigil c = true) \/ plain rest = true.
Proof. unfold split_tf. intros H.
  destruct (index_byte x2e rest) as [[|dd]|] eqn:E1.
  - left. destruct (index_byte_O _ _ E1) as [t ->]. exists x2e, t. split; reflexivity.
  - destruct (index_byte x23 rest) as [[|hh]|] eqn:E2.
    + left. destruct (index_byte_O _ _ E2) as [t ->]. exists x23, t. split; reflexivity.
    + destruct (Nat.ltb (S dd) (S hh)); discriminate.
    + discriminate.
  - destruct (index_byte x23 rest) as [[|hh]|] eqn:E2.
    + left. destruct (index_byte_O _ _ E2) as [t ->]. exists x23, t. split; reflexivity.
    + discriminate.
    + right. exact (index_byte_none_plain _ E1 E2). Qed.

(* ParseInt rejects a segment starting with a sigil *)
Lemma pint0_sigil_none c t : sigil c = true -> pint0 (c :: t) = None.
Proof. unfold sigil. intros H. apply orb_true_iff in H as [H|H]; apply byte_eqb_eq in H; subst c.
  - apply pint0_dot_none. left. reflexivity.
  - apply pint0_bad_head; [vm_compute; reflexivity|discriminate|discriminate|discriminate]. Qed.

(* an object with plain keys has no key starting with a sigil *)
Lemma o_get_sigil_panic h id kvs c t : heap_keys_plain h -> get_obj h id = Some kvs -> sigil c = true ->
  o_get kvs (c :: t) = Panic.
Proof. intros Hh Hk Hc. unfold o_get. destruct (alookup (c :: t) kvs) as [x|] eqn:E; [|reflexivity].
  apply alookup_In in E. pose proof (Hh id kvs (c :: t) x Hk E) as P. cbn [key_plain] in P. rewrite Hc in P. discriminate. Qed.

(* one navigation step over a non-leaf split keeps the defect in the remaining string *)
Lemma bad_step c rest d t0 : (0 < d)%nat -> plain (firstn d rest) = true -> skipn d rest = t0 ->
  t0 <> [] -> rest <> [] -> bad (c :: rest) = bad t0.
Proof. intros Hd Hp Hs Ht Hr. rewrite <- (firstn_skipn d rest) at 1. rewrite Hs. apply bad_suffix; [|exact Hp|exact Ht].
  destruct rest as [|r0 r]; [congruence|]. destruct d as [|d]; [lia|]. discriminate. Qed.

Lemma get_tf_bad_panic : forall fuel h v s, heap_keys_plain h -> has_empty_segment s = true -> get_tf fuel h v s = Panic.
Proof.
  induction fuel as [|f IH]; intros h v s Hh Hs; [reflexivity|].
  rewrite get_tf_S.
  destruct v as [| b | z | bits | str | id | id]; try reflexivity.
  - (* list *)
    destruct (get_list h id) as [l|]; [|reflexivity].
    destruct s as [|c [|r0 rest']]; try reflexivity.
    cbn [valid_head]. destruct (byte_eqb c x23) eqn:Ec; [|reflexivity].
    rewrite has_empty_long in Hs. set (rest := r0 :: rest') in *.
    assert (Hr : rest <> []) by discriminate.
    destruct (split_tf rest) as [d|d|] eqn:E.
    + destruct (split_tf_dot_inv _ _ E) as (Hd & Hp & t0 & Hsk).
      destruct (pint0 (firstn d rest)) as [i|]; [|reflexivity].
      destruct (l_get l i) as [[| b | z | bits | str | o | o]|]; try reflexivity.
      apply IH; [exact Hh|]. apply bad_has_empty.
      rewrite <- (bad_step c rest d (skipn d rest) Hd Hp eq_refl); [exact Hs|rewrite Hsk; discriminate|exact Hr].
    + destruct (split_tf_hash_inv _ _ E) as (Hd & Hp & t0 & Hsk).
      destruct (pint0 (firstn d rest)) as [i|]; [|reflexivity].
      destruct (l_get l i) as [[| b | z | bits | str | o | o]|]; try reflexivity.
      apply IH; [exact Hh|]. apply bad_has_empty.
      rewrite <- (bad_step c rest d (skipn d rest) Hd Hp eq_refl); [exact Hs|rewrite Hsk; discriminate|exact Hr].
    + destruct (split_tf_leaf_inv _ E) as [(c' & t & Er & Hc')|Hp].
      * rewrite Er. rewrite (pint0_sigil_none c' t Hc'). reflexivity.
      * rewrite (bad_plain c rest Hr Hp) in Hs. discriminate.
  - (* object *)
    destruct (get_obj h id) as [kvs|] eqn:Hk; [|reflexivity].
    destruct s as [|c [|r0 rest']]; try reflexivity.
    cbn [valid_head]. destruct (byte_eqb c x2e) eqn:Ec; [|reflexivity].
    rewrite has_empty_long in Hs. set (rest := r0 :: rest') in *.
    assert (Hr : rest <> []) by discriminate.
    destruct (split_tf rest) as [d|d|] eqn:E.
    + destruct (split_tf_dot_inv _ _ E) as (Hd & Hp & t0 & Hsk).
      destruct (o_get kvs (firstn d rest)) as [[| b | z | bits | str | o | o]|]; try reflexivity.
      apply IH; [exact Hh|]. apply bad_has_empty.
      rewrite <- (bad_step c rest d (skipn d rest) Hd Hp eq_refl); [exact Hs|rewrite Hsk; discriminate|exact Hr].
    + destruct (split_tf_hash_inv _ _ E) as (Hd & Hp & t0 & Hsk).
      destruct (o_get kvs (firstn d rest)) as [[| b | z | bits | str | o | o]|]; try reflexivity.
      apply IH; [exact Hh|]. apply bad_has_empty.
      rewrite <- (bad_step c rest d (skipn d rest) Hd Hp eq_refl); [exact Hs|rewrite Hsk; discriminate|exact Hr].
    + destruct (split_tf_leaf_inv _ E) as [(c' & t & Er & Hc')|Hp].
      * rewrite Er. exact (o_get_sigil_panic h id kvs c' t Hh Hk Hc').
      * rewrite (bad_plain c rest Hr Hp) in Hs. discriminate.
Qed.

Theorem empty_segment_undefined : forall fuel h v s, heap_keys_plain h -> has_empty_segment s = true ->
  typeof_tf fuel h v s = KUndefined /\ get_tf fuel h v s = Panic.
Proof. intros fuel h v s Hh Hs. apply panic_both. exact (get_tf_bad_panic fuel h v s Hh Hs). Qed.

(* The hypothesis heap_keys_plain is only used at the object that is asked for the sigil-headed key; without it the
   statement is false (the recorded finding): *)
Example empty_segment_exception :
  let h := [CObj [(B".a", HInt 7)]] in
  has_empty_segment (B"..a") = true /\ get_tf 4 h (HO 0) (B"..a") = Ok (HInt 7) /\ typeof_tf 4 h (HO 0) (B"..a") = KInt.
Proof. vm_compute. repeat split. Qed.
