(* FloatBits.v — float64 as its 64-bit pattern (Z, 0 <= b < 2^64); classification and Go's == and < are concrete. *)
From Anytype Require Import Base.
From Coq Require Import ZifyBool.
Local Open Scope Z_scope.
Ltac Zify.zify_post_hook ::= Z.div_mod_to_equations.

Definition two52 : Z := 4503599627370496.
Definition two63 : Z := 9223372036854775808.
Definition two64 : Z := 18446744073709551616.

Definition fbits_ok (b : Z) : bool := (0 <=? b) && (b <? two64).
Definition f_exp (b : Z) : Z := (b / two52) mod 2048.
Definition f_man (b : Z) : Z := b mod two52.
Definition fneg_sign (b : Z) : bool := two63 <=? b.
Definition is_nan (b : Z) : bool := (f_exp b =? 2047) && negb (f_man b =? 0).
Definition is_inf (b : Z) : bool := (f_exp b =? 2047) && (f_man b =? 0).
Definition is_finite (b : Z) : bool := negb (f_exp b =? 2047).
(* sign-magnitude key: value order on non-NaN patterns; +0 and -0 both map to 0 *)
Definition fkey (b : Z) : Z := if b <? two63 then b else two63 - b.
Definition flt (a b : Z) : bool := negb (is_nan a) && negb (is_nan b) && (fkey a <? fkey b).
Definition feq (a b : Z) : bool := negb (is_nan a) && negb (is_nan b) && (fkey a =? fkey b).
Definition fle (a b : Z) : bool := negb (is_nan a) && negb (is_nan b) && (fkey a <=? fkey b).

Definition pzero : Z := 0.
Definition nzero : Z := two63.
Definition fone : Z := 4607182418800017408.            (* 0x3FF0000000000000 *)
Definition fmax : Z := 9218868437227405311.            (* 0x7FEFFFFFFFFFFFFF  math.MaxFloat64 *)
Definition fnegmax : Z := 18442240474082181119.        (* 0xFFEFFFFFFFFFFFFF -math.MaxFloat64 *)
Definition fabs (b : Z) : Z := if b <? two63 then b else b - two63.
Definition f1e6 : Z := 4696837146684686336.            (* 0x412E848000000000 = 1e6 *)
Definition f1em6 : Z := 4517329193108106637.           (* 0x3EB0C6F7A0B5ED8D = 1e-6 *)

Lemma finite_not_nan b : is_finite b = true -> is_nan b = false.
Proof. unfold is_finite, is_nan. intros H. destruct (f_exp b =? 2047); simpl in *; congruence. Qed.

Lemma fkey_le_max b : fbits_ok b = true -> is_finite b = true -> fkey b <= fkey fmax.
Proof. assert (K: fkey fmax = 9218868437227405311) by (vm_compute; reflexivity). rewrite K.
  unfold fbits_ok, is_finite, f_exp, fkey, two64, two63, two52. intros H1 H2.
  destruct (b <? 9223372036854775808) eqn:E; lia. Qed.

Lemma fkey_ge_negmax b : fbits_ok b = true -> is_finite b = true -> fkey fnegmax <= fkey b.
Proof. assert (K: fkey fnegmax = -9218868437227405311) by (vm_compute; reflexivity). rewrite K.
  unfold fbits_ok, is_finite, f_exp, fkey, two64, two63, two52. intros H1 H2.
  destruct (b <? 9223372036854775808) eqn:E; lia. Qed.

Lemma fmax_finite : is_finite fmax = true. Proof. vm_compute. reflexivity. Qed.
Lemma fnegmax_finite : is_finite fnegmax = true. Proof. vm_compute. reflexivity. Qed.

(* flt is a strict weak order on non-NaN patterns, feq its equivalence *)
Lemma flt_irrefl a : flt a a = false.
Proof. unfold flt. rewrite Z.ltb_irrefl. destruct (is_nan a); reflexivity. Qed.
Lemma flt_trans a b c : flt a b = true -> flt b c = true -> flt a c = true.
Proof. unfold flt. intros H1 H2. destruct (is_nan a), (is_nan b), (is_nan c); cbn [negb andb] in *; try discriminate; lia. Qed.
Lemma flt_asym a b : flt a b = true -> flt b a = false.
Proof. unfold flt. intros H. destruct (is_nan a), (is_nan b); cbn [negb andb] in *; try discriminate; try reflexivity; lia. Qed.
Lemma feq_refl a : is_nan a = false -> feq a a = true.
Proof. unfold feq. intros ->. rewrite Z.eqb_refl. reflexivity. Qed.
Lemma feq_sym a b : feq a b = feq b a.
Proof. unfold feq. rewrite (Z.eqb_sym (fkey a)). destruct (is_nan a), (is_nan b); reflexivity. Qed.
Lemma feq_trans a b c : feq a b = true -> feq b c = true -> feq a c = true.
Proof. unfold feq. intros H1 H2. destruct (is_nan a), (is_nan b), (is_nan c); cbn [negb andb] in *; try discriminate; lia. Qed.
Lemma flt_total a b : is_nan a = false -> is_nan b = false -> flt a b = false -> flt b a = false -> feq a b = true.
Proof. unfold flt, feq. intros -> ->. cbn [negb andb]. lia. Qed.
Lemma fle_flt a b : is_nan a = false -> is_nan b = false -> fle a b = negb (flt b a).
Proof. unfold fle, flt. intros -> ->. cbn [negb andb]. lia. Qed.

(* patterns with equal key are identical unless both are zeros *)
Lemma fkey_inj a b : fbits_ok a = true -> fbits_ok b = true -> fkey a = fkey b -> a = b \/ (fkey a = 0).
Proof. unfold fbits_ok, fkey, two63, two64. intros Ha Hb.
  destruct (a <? 9223372036854775808) eqn:E1, (b <? 9223372036854775808) eqn:E2; lia. Qed.

(* int64 *)
Definition min_int : Z := - two63.
Definition max_int : Z := two63 - 1.
Definition in_int64 (z : Z) : bool := (min_int <=? z) && (z <=? max_int).
Definition wrap64 (z : Z) : Z := (z + two63) mod two64 - two63.

Lemma wrap64_id z : in_int64 z = true -> wrap64 z = z.
Proof. unfold in_int64, wrap64, min_int, max_int, two63, two64. intros H. lia. Qed.
Lemma wrap64_range z : in_int64 (wrap64 z) = true.
Proof. unfold in_int64, wrap64, min_int, max_int, two63, two64. lia. Qed.
Lemma wrap64_shift x n : wrap64 (x + n * two64) = wrap64 x.
Proof. unfold wrap64. replace (x + n * two64 + two63) with (x + two63 + n * two64) by ring.
  rewrite Z_mod_plus_full. reflexivity. Qed.
Lemma wrap64_decomp a : exists k, wrap64 a = a + k * two64.
Proof. unfold wrap64. exists (- ((a + two63) / two64)).
  pose proof (Z_div_mod_eq_full (a + two63) two64) as H. lia. Qed.
Lemma wrap64_add_l a b : wrap64 (wrap64 a + b) = wrap64 (a + b).
Proof. destruct (wrap64_decomp a) as [k ->]. replace (a + k * two64 + b) with (a + b + k * two64) by ring.
  apply wrap64_shift. Qed.
Lemma wrap64_mul_l a b : wrap64 (wrap64 a * b) = wrap64 (a * b).
Proof. destruct (wrap64_decomp a) as [k ->]. replace ((a + k * two64) * b) with (a * b + (k * b) * two64) by ring.
  apply wrap64_shift. Qed.
