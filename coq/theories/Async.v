(* Async.v — small-step semantics of the synchronisation skeleton of ForEachAsync / MapAsync (C15).
   A skeleton (what the main goroutine does, what every worker does) is an instruction list; the four skeletons of the library
   are extracted from the source on every run (Generated/GenAsync.v) and must equal the ones the theorems are about. *)
From Anytype Require Import Base.
Local Open Scope nat_scope.

Inductive minstr :=
| MAdd                      (* wg.Add(count) *)
| MMakeResult               (* result := NewListOf(nil, count) / NewObject() *)
| MSpawn (byvalue : bool)   (* for i, item := range ... { go step(&wg, i, item.getVal()) } ; byvalue: index and element are passed as arguments *)
| MWait                     (* wg.Wait() *)
| MRet                      (* return *)
| MOther (what : bytes).
Inductive winstr :=
| WLock | WUnlock
| WCall                     (* function(i, x) *)
| WCallStore                (* result[i] = function(i, x) *)
| WDone                     (* group.Done() *)
| WOther (what : bytes).
Record skel := mkSkel { s_main : list minstr; s_worker : list winstr }.

(* the four skeletons as they are in the library *)
Definition skel_foreach : skel := mkSkel [MAdd; MSpawn true; MWait; MRet] [WCall; WDone].
Definition skel_list_map : skel := mkSkel [MAdd; MMakeResult; MSpawn true; MWait; MRet] [WLock; WCallStore; WUnlock; WDone].
Definition skel_object_map : skel := mkSkel [MAdd; MMakeResult; MSpawn true; MWait; MRet] [WLock; WCallStore; WUnlock; WDone].

(* ---------- semantics ---------- *)
(* thread ids: 0..n-1 workers (worker i handles element i), n = main *)
Record astate := mkA {
  a_mpc : nat;                 (* main program counter *)
  a_spawned : nat;             (* workers started so far *)
  a_wpc : list nat;            (* program counter of every worker (length n) *)
  a_counter : Z;               (* the WaitGroup counter *)
  a_mutex : option nat;        (* holder *)
  a_log : list (nat * nat);    (* callback calls so far: (worker, element index it was called with) *)
  a_result : list (option nat);(* result slots: who wrote them (the value written is f of the index the worker used) *)
  a_returned : bool;
  a_panicked : bool            (* negative WaitGroup counter *)
}.
Definition a_init (n : nat) : astate := mkA 0 0 (repeat_list 0 n) 0%Z None [] (repeat_list None n) false false.

(* the element a worker works on: its own when the arguments are passed by value; with a captured loop variable, whatever the
   loop variable holds when the worker runs (the last element once the loop is over, under pre-1.22 loop semantics) *)
Definition elem_of (sk : skel) (s : astate) (n i : nat) : nat :=
  if existsb (fun m => match m with MSpawn false => true | _ => false end) (s_main sk)
  then (if Nat.ltb (a_spawned s) n then a_spawned s else n - 1) else i.

Definition set_wpc (s : astate) (i pc : nat) : astate :=
  mkA (a_mpc s) (a_spawned s) (upd (a_wpc s) i pc) (a_counter s) (a_mutex s) (a_log s) (a_result s) (a_returned s) (a_panicked s).

(* one step of thread t; None = not enabled *)
Definition astep (sk : skel) (n : nat) (s : astate) (t : nat) : option astate :=
  if a_returned s || a_panicked s then None
  else if Nat.eqb t n then
    match nth_error (s_main sk) (a_mpc s) with
    | None => None
    | Some MAdd => Some (mkA (S (a_mpc s)) (a_spawned s) (a_wpc s) (a_counter s + Z.of_nat n)%Z (a_mutex s) (a_log s) (a_result s) false false)
    | Some MMakeResult => Some (mkA (S (a_mpc s)) (a_spawned s) (a_wpc s) (a_counter s) (a_mutex s) (a_log s) (repeat_list None n) false false)
    | Some (MSpawn _) =>
        if Nat.ltb (a_spawned s) n
        then Some (mkA (a_mpc s) (S (a_spawned s)) (a_wpc s) (a_counter s) (a_mutex s) (a_log s) (a_result s) false false)
        else Some (mkA (S (a_mpc s)) (a_spawned s) (a_wpc s) (a_counter s) (a_mutex s) (a_log s) (a_result s) false false)
    | Some MWait => if (a_counter s <=? 0)%Z
                    then Some (mkA (S (a_mpc s)) (a_spawned s) (a_wpc s) (a_counter s) (a_mutex s) (a_log s) (a_result s) false false)
                    else None
    | Some MRet => Some (mkA (S (a_mpc s)) (a_spawned s) (a_wpc s) (a_counter s) (a_mutex s) (a_log s) (a_result s) true false)
    | Some (MOther _) => None
    end
  else if Nat.ltb t (a_spawned s) then
    match nth_error (a_wpc s) t with
    | None => None
    | Some pc =>
        match nth_error (s_worker sk) pc with
        | None => None
        | Some WLock => match a_mutex s with
                        | None => Some (mkA (a_mpc s) (a_spawned s) (upd (a_wpc s) t (S pc)) (a_counter s) (Some t) (a_log s) (a_result s) false false)
                        | Some _ => None
                        end
        | Some WUnlock => Some (mkA (a_mpc s) (a_spawned s) (upd (a_wpc s) t (S pc)) (a_counter s) None (a_log s) (a_result s) false false)
        | Some WCall => Some (mkA (a_mpc s) (a_spawned s) (upd (a_wpc s) t (S pc)) (a_counter s) (a_mutex s) (a_log s ++ [(t, elem_of sk s n t)]) (a_result s) false false)
        | Some WCallStore =>
            Some (mkA (a_mpc s) (a_spawned s) (upd (a_wpc s) t (S pc)) (a_counter s) (a_mutex s) (a_log s ++ [(t, elem_of sk s n t)])
                      (upd (a_result s) (elem_of sk s n t) (Some (elem_of sk s n t))) false false)
        | Some WDone => Some (mkA (a_mpc s) (a_spawned s) (upd (a_wpc s) t (S pc)) (a_counter s - 1)%Z (a_mutex s) (a_log s) (a_result s) false
                                  ((a_counter s - 1 <? 0)%Z))
        | Some (WOther _) => None
        end
    end
  else None.

(* a schedule is a list of thread ids; a disabled thread's turn is skipped *)
Fixpoint arun (sk : skel) (n : nat) (s : astate) (sched : list nat) : astate :=
  match sched with
  | [] => s
  | t :: r => match astep sk n s t with Some s' => arun sk n s' r | None => arun sk n s r end
  end.

Definition worker_done (sk : skel) (s : astate) (i : nat) : bool :=
  match nth_error (a_wpc s) i with Some pc => Nat.eqb pc (length (s_worker sk)) | None => false end.
Definition enabled (sk : skel) (n : nat) (s : astate) (t : nat) : bool := match astep sk n s t with Some _ => true | None => false end.
