(* RunMisc.v — correspondence runners for C15 (async skeletons) and C19 (derived identity). They run the GENERATED fragments
   (extracted from /repo's source on this run) against what the implementation was observed to do. *)
From Anytype Require Import Base FloatBits Value Sorting RunCommon Derived Async.
From AnytypeGen Require Import GenFluent GenAsync.
Local Open Scope Z_scope.

(* C19: (is_object, method name, the call on a derived value returned the registered outer value) *)
Definition c19_model (is_obj : bool) (name : bytes) : bool :=
  fluent_ok 6 (if is_obj then gen_object_methods else gen_list_methods) name.
(* a method whose return expressions the translator cannot read has no prediction: the harness's own predicate decides alone *)
Definition c19_check (c : bool * bytes * bool) : bool :=
  let '(is_obj, name, outer) := c in
  negb (readable 6 (if is_obj then gen_object_methods else gen_list_methods) name) || Bool.eqb (c19_model is_obj name) outer.

(* C15: a fair round-robin schedule, long enough for every thread to finish *)
Fixpoint round_robin (n rounds : nat) : list nat :=
  match rounds with O => [] | S r => seq 0 (S n) ++ round_robin n r end.
(* the skeleton EXTRACTED from the source when the method synchronises with a WaitGroup; the modelled one otherwise (the method then
   uses a shape the translator does not read: only the observations below tie it) *)
Definition skel_or (g : option skel) (m : skel) : skel := match g with Some s => s | None => m end.
Definition skel_of (k : Z) : skel :=
  if k =? 0 then skel_or gen_list_ForEachAsync skel_foreach else if k =? 1 then skel_or gen_list_MapAsync skel_list_map
  else if k =? 2 then skel_or gen_object_ForEachAsync skel_foreach else skel_or gen_object_MapAsync skel_object_map.
Definition c15_model (k : Z) (n : nat) :=
  let s := arun (skel_of k) n (a_init n) (round_robin n (2 * n + 12)) in
  (a_returned s, isort Nat.leb (map snd (a_log s)), forallb (fun i => worker_done (skel_of k) s i) (seq 0 n),
   if (k =? 1) || (k =? 3) then list_eqb (option_eqb Nat.eqb) (a_result s) (map Some (seq 0 n)) else true).
(* (method kind, size, element indices the callback was called with (sorted), every callback had returned when the call returned,
    MapAsync result = Map result) *)
Definition c15_check (c : Z * nat * list nat * bool * bool) : bool :=
  let '(k, n, log, all_done, result_ok) := c in
  let '(ret, mlog, mdone, mres) := c15_model k n in
  ret && list_eqb Nat.eqb mlog log && Bool.eqb mdone all_done && Bool.eqb mres result_ok.
