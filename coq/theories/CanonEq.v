(* CanonEq.v — the canonical tree [vcanon v] (what String() denotes once member order is forgotten: object members sorted by
   key, recursively) is well formed, Equals the tree it was computed from (both ways), and every object node of it has its keys
   sorted w.r.t. [bytes_leb]. *)
From Anytype Require Import Base FloatBits Value Sorting Equality HeapExt HeapExtProofs.
From Coq Require Import Permutation Sorted.

(* ================= association lists under permutation ================= *)

Lemma alookup_perm {A} (k : bytes) (l l' : list (bytes * A)) :
  NoDup (map fst l) -> Permutation l l' -> alookup k l = alookup k l'.
Proof.
  intros ND P.
  assert (ND' : NoDup (akeys l')).
  { unfold akeys. apply (Permutation_NoDup (l := map fst l)); [apply Permutation_map; exact P | exact ND]. }
  destruct (alookup k l) as [v|] eqn:E.
  - symmetry. apply alookup_NoDup_In; [exact ND'|].
    apply (Permutation_in _ P). apply alookup_In. exact E.
  - symmetry. apply alookup_None_notin. intros Hin.
    apply alookup_None_notin in E. apply E.
    unfold akeys in *. apply (Permutation_in _ (Permutation_sym (Permutation_map fst P))). exact Hin.
Qed.

Lemma alookup_map_snd {A B} (f : A -> B) (k : bytes) (l : list (bytes * A)) :
  alookup k (map (fun kv => (fst kv, f (snd kv))) l) = option_map f (alookup k l).
Proof.
  induction l as [|[k' v] t IH]; [reflexivity|].
  cbn [map alookup fst snd]. destruct (bytes_eqb k k'); [reflexivity | exact IH].
Qed.

(* ================= the member list of a canonical object ================= *)

Lemma vcanon_kvs_keys kvs : map fst (vcanon_kvs kvs) = map fst kvs.
Proof. unfold vcanon_kvs. rewrite map_map. apply map_ext. intros kv. reflexivity. Qed.

Lemma vcanon_kvs_length kvs : length (vcanon_kvs kvs) = length kvs.
Proof. unfold vcanon_kvs. apply map_length. Qed.

Lemma sorted_kvs_perm kvs : Permutation (vcanon_kvs kvs) (isort kleb (vcanon_kvs kvs)).
Proof. apply isort_perm. Qed.

Lemma sorted_kvs_length kvs : length (isort kleb (vcanon_kvs kvs)) = length kvs.
Proof.
  rewrite <- (Permutation_length (sorted_kvs_perm kvs)). apply vcanon_kvs_length.
Qed.

Lemma sorted_kvs_In kvs kv :
  In kv (isort kleb (vcanon_kvs kvs)) <-> exists kv0, In kv0 kvs /\ kv = (fst kv0, vcanon (snd kv0)).
Proof.
  split.
  - intros Hin. apply (Permutation_in _ (Permutation_sym (sorted_kvs_perm kvs))) in Hin.
    unfold vcanon_kvs in Hin. apply in_map_iff in Hin. destruct Hin as [kv0 [E Hin0]].
    exists kv0. split; [exact Hin0 | symmetry; exact E].
  - intros [kv0 [Hin0 E]]. apply (Permutation_in _ (sorted_kvs_perm kvs)).
    unfold vcanon_kvs. apply in_map_iff. exists kv0. split; [symmetry; exact E | exact Hin0].
Qed.

Lemma sorted_kvs_NoDup kvs : NoDup (map fst kvs) -> NoDup (map fst (isort kleb (vcanon_kvs kvs))).
Proof.
  intros ND. apply (Permutation_NoDup (l := map fst (vcanon_kvs kvs))).
  - apply Permutation_map. apply sorted_kvs_perm.
  - rewrite vcanon_kvs_keys. exact ND.
Qed.

(* looking a key up in the canonical object = canonicalising what the lookup finds in the original *)
Lemma alookup_sorted_kvs k kvs : NoDup (map fst kvs) ->
  alookup k (isort kleb (vcanon_kvs kvs)) = option_map vcanon (alookup k kvs).
Proof.
  intros ND.
  rewrite <- (alookup_perm k (vcanon_kvs kvs) (isort kleb (vcanon_kvs kvs))).
  - unfold vcanon_kvs. apply alookup_map_snd.
  - rewrite vcanon_kvs_keys. exact ND.
  - apply sorted_kvs_perm.
Qed.

(* ================= (4) canonicalisation keeps trees well formed ================= *)

Theorem vcanon_wf : forall v, wfb v = true -> wfb (vcanon v) = true.
Proof.
  induction v as [| b | z | b | s | l IH | kvs IH] using val_ind'; intros W; try exact W.
  - rewrite vcanon_list. cbn [wfb] in *. rewrite forallb_forall in *.
    intros y Hy. apply in_map_iff in Hy. destruct Hy as [x [<- Hx]].
    rewrite Forall_forall in IH. apply (IH x Hx). apply W. exact Hx.
  - rewrite vcanon_obj. apply wfb_obj in W. destruct W as [ND Wk].
    cbn [wfb]. apply andb_true_iff. split.
    + apply nodupb_NoDup. apply sorted_kvs_NoDup. exact ND.
    + rewrite forallb_forall. intros kv Hkv. apply sorted_kvs_In in Hkv.
      destruct Hkv as [kv0 [Hin0 ->]]. cbn [snd].
      rewrite Forall_forall in IH, Wk. apply (IH kv0 Hin0). apply (Wk kv0 Hin0).
Qed.

(* NaN-freeness is kept too (not needed below, but it makes [veq_refl]/[veq_trans] usable on canonical trees) *)
Theorem vcanon_nan_free : forall v, nan_free v = true -> nan_free (vcanon v) = true.
Proof.
  induction v as [| b | z | b | s | l IH | kvs IH] using val_ind'; intros N; try exact N.
  - rewrite vcanon_list. cbn [nan_free] in *. rewrite forallb_forall in *.
    intros y Hy. apply in_map_iff in Hy. destruct Hy as [x [<- Hx]].
    rewrite Forall_forall in IH. apply (IH x Hx). apply N. exact Hx.
  - rewrite vcanon_obj. cbn [nan_free] in *. rewrite forallb_forall in *.
    intros kv Hkv. apply sorted_kvs_In in Hkv. destruct Hkv as [kv0 [Hin0 ->]]. cbn [snd].
    rewrite Forall_forall in IH. apply (IH kv0 Hin0). apply (N kv0 Hin0).
Qed.

(* ================= (5) the canonical tree Equals the original ================= *)

Lemma obj_relb_forall (R : val -> val -> bool) ys xs :
  obj_relb R ys xs = true <->
  (forall k v, In (k, v) xs -> exists w, alookup k ys = Some w /\ R v w = true).
Proof.
  induction xs as [|[k v] t IH]; cbn [obj_relb].
  - split; [intros _ k v [] | reflexivity].
  - rewrite andb_true_iff, IH. split.
    + intros [H1 H2] k' v' [E | Hin].
      * injection E as <- <-. destruct (alookup k ys) as [w|]; [exists w; split; [reflexivity | exact H1] | discriminate H1].
      * apply H2. exact Hin.
    + intros H. split.
      * destruct (H k v (or_introl eq_refl)) as [w [Ew Hw]]. rewrite Ew. exact Hw.
      * intros k' v' Hin. apply H. right. exact Hin.
Qed.

Lemma list_relb_map_l (R : val -> val -> bool) (f : val -> val) l :
  (forall x, In x l -> R (f x) x = true) -> list_relb R (map f l) l = true.
Proof.
  induction l as [|x t IH]; intros H; [reflexivity|].
  cbn [map list_relb]. rewrite (H x (or_introl eq_refl)). cbn [andb].
  apply IH. intros y Hy. apply H. right. exact Hy.
Qed.

Lemma vcanon_veq_l : forall v, wfb v = true -> nan_free v = true -> veq (vcanon v) v = true.
Proof.
  induction v as [| b | z | b | s | l IH | kvs IH] using val_ind'; intros W N;
    try (apply veq_refl; assumption).
  - rewrite vcanon_list, veq_list. rewrite map_length, Nat.eqb_refl. cbn [andb].
    apply list_relb_map_l. intros x Hx.
    cbn [wfb nan_free] in W, N. rewrite forallb_forall in W, N.
    rewrite Forall_forall in IH. apply (IH x Hx); [apply W; exact Hx | apply N; exact Hx].
  - rewrite vcanon_obj, veq_obj. rewrite sorted_kvs_length, Nat.eqb_refl. cbn [andb].
    apply wfb_obj in W. destruct W as [ND Wk].
    cbn [nan_free] in N. rewrite forallb_forall in N.
    apply obj_relb_forall. intros k v Hin.
    apply sorted_kvs_In in Hin. destruct Hin as [[k0 v0] [Hin0 E]]. cbn [fst snd] in E.
    injection E as -> ->.
    exists v0. split.
    + apply alookup_NoDup_In; [exact ND | exact Hin0].
    + rewrite Forall_forall in IH, Wk.
      apply (IH (k0, v0) Hin0); [apply (Wk (k0, v0) Hin0) | apply (N (k0, v0) Hin0)].
Qed.

Theorem vcanon_veq : forall v, wfb v = true -> nan_free v = true ->
  veq (vcanon v) v = true /\ veq v (vcanon v) = true.
Proof.
  intros v W N. pose proof (vcanon_veq_l v W N) as H. split; [exact H|].
  rewrite (veq_sym v (vcanon v) W (vcanon_wf v W)). exact H.
Qed.

(* in the specification's terms *)
Corollary vcanon_seqP : forall v, wfb v = true -> nan_free v = true -> seqP (vcanon v) v /\ seqP v (vcanon v).
Proof.
  intros v W N. destruct (vcanon_veq v W N) as [H1 H2].
  split; [apply (veq_spec (vcanon v) v) | apply (veq_spec v (vcanon v))]; try assumption; apply vcanon_wf; exact W.
Qed.

(* two trees that Equal each other have canonical forms that Equal each other *)
Corollary vcanon_veq_congr : forall a b, wfb a = true -> wfb b = true -> nan_free a = true -> nan_free b = true ->
  veq a b = true -> veq (vcanon a) (vcanon b) = true.
Proof.
  intros a b Wa Wb Na Nb H.
  destruct (vcanon_veq a Wa Na) as [Ha _]. destruct (vcanon_veq b Wb Nb) as [_ Hb].
  apply (veq_trans (vcanon a) a (vcanon b)); [apply vcanon_wf; exact Wa | exact Wa | apply vcanon_wf; exact Wb | exact Ha |].
  apply (veq_trans a b (vcanon b)); [exact Wa | exact Wb | apply vcanon_wf; exact Wb | exact H | exact Hb].
Qed.

(* ================= (6) every object node of a canonical tree has sorted keys ================= *)

Inductive keys_sorted : val -> Prop :=
| KS_nil : keys_sorted VNil
| KS_bool b : keys_sorted (VBool b)
| KS_int z : keys_sorted (VInt z)
| KS_float b : keys_sorted (VFloat b)
| KS_str s : keys_sorted (VStr s)
| KS_list l : Forall keys_sorted l -> keys_sorted (VList l)
| KS_obj kvs :
    StronglySorted (fun a b => bytes_leb a b = true) (map fst kvs) ->
    Forall (fun kv => keys_sorted (snd kv)) kvs ->
    keys_sorted (VObj kvs).

Theorem vcanon_sorted : forall v, keys_sorted (vcanon v).
Proof.
  induction v as [| b | z | b | s | l IH | kvs IH] using val_ind'; try (constructor; fail).
  - rewrite vcanon_list. constructor. apply Forall_forall. intros y Hy.
    apply in_map_iff in Hy. destruct Hy as [x [<- Hx]].
    rewrite Forall_forall in IH. exact (IH x Hx).
  - rewrite vcanon_obj. constructor.
    + apply (StronglySorted_map fst (fun a b => kleb a b = true)).
      * intros a b H. exact H.
      * apply isort_sorted; [apply kleb_total | apply kleb_trans].
    + apply Forall_forall. intros kv Hkv. apply sorted_kvs_In in Hkv.
      destruct Hkv as [kv0 [Hin0 ->]]. cbn [snd].
      rewrite Forall_forall in IH. exact (IH kv0 Hin0).
Qed.

(* on a well-formed tree the keys are pairwise distinct, so "sorted" is strict: each key is below every later one *)
Inductive keys_strictly_sorted : val -> Prop :=
| KSS_nil : keys_strictly_sorted VNil
| KSS_bool b : keys_strictly_sorted (VBool b)
| KSS_int z : keys_strictly_sorted (VInt z)
| KSS_float b : keys_strictly_sorted (VFloat b)
| KSS_str s : keys_strictly_sorted (VStr s)
| KSS_list l : Forall keys_strictly_sorted l -> keys_strictly_sorted (VList l)
| KSS_obj kvs :
    StronglySorted (fun a b => bytes_ltb a b = true) (map fst kvs) ->
    Forall (fun kv => keys_strictly_sorted (snd kv)) kvs ->
    keys_strictly_sorted (VObj kvs).

Lemma sorted_nodup_strict (l : list bytes) :
  StronglySorted (fun a b => bytes_leb a b = true) l -> NoDup l -> StronglySorted (fun a b => bytes_ltb a b = true) l.
Proof.
  induction l as [|x t IH]; intros S ND; [constructor|].
  inversion S as [|? ? St Hall]. subst. inversion ND as [|? ? Hn NDt]. subst.
  constructor; [apply IH; assumption|].
  rewrite Forall_forall in *. intros y Hy. specialize (Hall y Hy).
  destruct (bytes_ltb x y) eqn:E; [reflexivity|]. exfalso. apply Hn.
  assert (x = y) as ->; [|exact Hy].
  apply bytes_leb_antisym; [exact Hall|]. unfold bytes_leb. rewrite E. reflexivity.
Qed.

Lemma keys_sorted_strict : forall v, wfb v = true -> keys_sorted v -> keys_strictly_sorted v.
Proof.
  induction v as [| b | z | b | s | l IH | kvs IH] using val_ind'; intros W S; try (constructor; fail).
  - inversion S as [| | | | | l' Hl |]. subst. apply wfb_list in W.
    constructor. rewrite Forall_forall in *. intros x Hx. apply (IH x Hx); [apply W; exact Hx | apply Hl; exact Hx].
  - inversion S as [| | | | | | kvs' Hs Hk]. subst. apply wfb_obj in W. destruct W as [ND Wk].
    constructor.
    + apply sorted_nodup_strict; [exact Hs | exact ND].
    + rewrite Forall_forall in *. intros kv Hkv. apply (IH kv Hkv); [apply (Wk kv Hkv) | apply (Hk kv Hkv)].
Qed.

Theorem vcanon_strictly_sorted : forall v, wfb v = true -> keys_strictly_sorted (vcanon v).
Proof.
  intros v W. apply keys_sorted_strict; [apply vcanon_wf; exact W | apply vcanon_sorted].
Qed.

Print Assumptions vcanon_wf.
Print Assumptions vcanon_nan_free.
Print Assumptions vcanon_veq.
Print Assumptions vcanon_seqP.
Print Assumptions vcanon_veq_congr.
Print Assumptions vcanon_sorted.
Print Assumptions vcanon_strictly_sorted.
