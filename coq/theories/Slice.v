(* Slice.v — lists as Go slices: every list cell is (backing array, len); the array's length is its capacity.
   Transcribes how list_impl.go uses append/copy/make, for an ARBITRARY growth policy, and proves that every program behaves
   exactly like the sequence model of Heap.v (each list id -> plain sequence): ownership invariant + refinement.
   The pre-fix Concat (append onto the receiver's slice) is kept as [old_concat] and refuted. *)
From Anytype Require Import Base FloatBits Value Sorting Heap.
Local Open Scope nat_scope.

Record cstate := mkC { arrays : list (list hval); cells : list (nat * nat) }.

Definition arr_of (c : cstate) (a : nat) : list hval := nth a (arrays c) [].
Definition vis_cell (c : cstate) (an : nat * nat) : list hval := firstn (snd an) (arr_of c (fst an)).
Definition abs (c : cstate) : list (list hval) := map (vis_cell c) (cells c).
Definition vis (c : cstate) (id : nat) : list hval := nth id (abs c) [].

(* ownership: every cell's array exists, len <= cap, and distinct cells have distinct arrays *)
Definition Own (c : cstate) : Prop :=
  (forall id a n, nth_error (cells c) id = Some (a, n) -> a < length (arrays c) /\ n <= length (arr_of c a)) /\
  (forall i j a n b m, nth_error (cells c) i = Some (a, n) -> nth_error (cells c) j = Some (b, m) -> a = b -> i = j).

Section Grow.
  Variable grow : nat -> nat -> nat.   (* new capacity chosen by append: old capacity, needed length. No hypothesis. *)

  Definition overwrite (s content : list hval) : list hval := content ++ skipn (length content) s.

  (* "make list id show [content]": in place when it fits the capacity, otherwise a fresh array (append's two behaviours) *)
  Definition assign (c : cstate) (id : nat) (content : list hval) : cstate :=
    match nth_error (cells c) id with
    | Some (a, n) =>
        let s := arr_of c a in
        if length content <=? length s
        then mkC (upd (arrays c) a (overwrite s content)) (upd (cells c) id (a, length content))
        else mkC (arrays c ++ [content ++ repeat_list HNil (grow (length s) (length content) - length content)])
                 (upd (cells c) id (length (arrays c), length content))
    | None => c
    end.
  (* a brand-new array for an existing cell: Clear ([]field{}), Sort (takes the array of a freshly built list) *)
  Definition assign_fresh (c : cstate) (id : nat) (content : list hval) (spare : nat) : cstate :=
    mkC (arrays c ++ [content ++ repeat_list HNil spare]) (upd (cells c) id (length (arrays c), length content)).
  (* a new cell with its own array: NewList, SubList (make + copy), Concat (after the repair: make + append) *)
  Definition new_cell (c : cstate) (content : list hval) (spare : nat) : cstate :=
    mkC (arrays c ++ [content ++ repeat_list HNil spare]) (cells c ++ [(length (arrays c), length content)]).
  (* the pre-fix Concat: append(ego.val, other...) onto the receiver's own slice *)
  Definition old_concat (c : cstate) (id id2 : nat) : cstate :=
    match nth_error (cells c) id with
    | Some (a, n) =>
        let s := arr_of c a in
        let content := vis c id ++ vis c id2 in
        if length content <=? length s
        then mkC (upd (arrays c) a (overwrite s content)) (cells c ++ [(a, length content)])
        else new_cell c content (grow (length s) (length content) - length content)
    | None => c
    end.

  (* ---------- list operations, transcribed over [assign] ---------- *)
  Inductive cop :=
  | CNew (vs : list hval) (spare : nat)
  | CAdd (id : nat) (vs : list hval)
  | CInsert (id : nat) (i : Z) (v : hval)
  | CReplace (id : nat) (i : Z) (v : hval)
  | CDelete (id : nat) (idxs : list Z)
  | CPop (id : nat)
  | CClear (id : nat)
  | CReverse (id : nat)
  | CSort (id : nat)
  | CSubList (id : nat) (s e : Z)
  | CConcat (id id2 : nat)
  | CGet (id : nat) (i : Z)
  | CCount (id : nat).

  (* Add appends one value at a time *)
  Fixpoint add_each (c : cstate) (id : nat) (vs : list hval) : cstate :=
    match vs with [] => c | v :: t => add_each (assign c id (vis c id ++ [v])) id t end.
  (* Delete removes one index at a time (in place) *)
  Fixpoint delete_each (c : cstate) (id : nat) (idxs : list Z) : cstate * bool :=
    match idxs with
    | [] => (c, false)
    | i :: t => if in_range i (length (vis c id)) then delete_each (assign c id (remove_nth (Z.to_nat i) (vis c id))) id t else (c, true)
    end.

  Definition cstep (c : cstate) (o : cop) : cstate * outcome :=
    match o with
    | CNew vs spare => (new_cell c vs spare, Ret ONone)
    | CAdd id vs => (add_each c id vs, Ret ONone)
    | CInsert id i v =>
        match l_insert (vis c id) i v with Ok l' => (assign c id l', Ret ONone) | Panic => (c, Pan) end
    | CReplace id i v =>
        match l_replace (vis c id) i v with Ok l' => (assign c id l', Ret ONone) | Panic => (c, Pan) end
    | CDelete id idxs => let '(c', p) := delete_each c id (rev (isort Z.leb idxs)) in (c', if p then Pan else Ret ONone)
    | CPop id => let '(c', p) := delete_each c id [(Z.of_nat (length (vis c id)) - 1)%Z] in (c', if p then Pan else Ret ONone)
    | CClear id => (assign_fresh c id [] 0, Ret ONone)
    | CReverse id => (assign c id (reverse_model (vis c id)), Ret ONone)
    | CSort id => match l_sort (vis c id) with Ok l' => (assign_fresh c id l' 0, Ret ONone) | Panic => (c, Pan) end
    | CSubList id s e => match l_sublist (vis c id) s e with Ok l' => (new_cell c l' 0, Ret ONone) | Panic => (c, Pan) end
    | CConcat id id2 => (new_cell c (vis c id ++ vis c id2) 0, Ret ONone)
    | CGet id i => (c, match l_get (vis c id) i with Ok v => Ret (OV v) | Panic => Pan end)
    | CCount id => (c, Ret (OZ (Z.of_nat (length (vis c id)))))
    end.

  (* ---------- the sequence model of the same operations ---------- *)
  Definition astep (s : list (list hval)) (o : cop) : list (list hval) * outcome :=
    let v := fun id => nth id s [] in
    match o with
    | CNew vs _ => (s ++ [vs], Ret ONone)
    | CAdd id vs => (upd s id (v id ++ vs), Ret ONone)
    | CInsert id i x => match l_insert (v id) i x with Ok l' => (upd s id l', Ret ONone) | Panic => (s, Pan) end
    | CReplace id i x => match l_replace (v id) i x with Ok l' => (upd s id l', Ret ONone) | Panic => (s, Pan) end
    | CDelete id idxs => let '(l', p) := l_delete (v id) idxs in (upd s id l', if p then Pan else Ret ONone)
    | CPop id => let '(l', p) := l_pop (v id) in (upd s id l', if p then Pan else Ret ONone)
    | CClear id => (upd s id [], Ret ONone)
    | CReverse id => (upd s id (reverse_model (v id)), Ret ONone)
    | CSort id => match l_sort (v id) with Ok l' => (upd s id l', Ret ONone) | Panic => (s, Pan) end
    | CSubList id st e => match l_sublist (v id) st e with Ok l' => (s ++ [l'], Ret ONone) | Panic => (s, Pan) end
    | CConcat id id2 => (s ++ [v id ++ v id2], Ret ONone)
    | CGet id i => (s, match l_get (v id) i with Ok x => Ret (OV x) | Panic => Pan end)
    | CCount id => (s, Ret (OZ (Z.of_nat (length (v id)))))
    end.

  Fixpoint crun (c : cstate) (prog : list cop) : list outcome * cstate :=
    match prog with
    | [] => ([], c)
    | o :: t => let '(c1, oc) := cstep c o in let '(ocs, c2) := crun c1 t in (oc :: ocs, c2)
    end.
  Fixpoint arun (s : list (list hval)) (prog : list cop) : list outcome * list (list hval) :=
    match prog with
    | [] => ([], s)
    | o :: t => let '(s1, oc) := astep s o in let '(ocs, s2) := arun s1 t in (oc :: ocs, s2)
    end.
End Grow.

(* ================= proofs ================= *)
Lemma map_upd {A B} (f : A -> B) (l : list A) i x : map f (upd l i x) = upd (map f l) i (f x).
Proof. revert i. induction l as [|h t IH]; intros [|i]; simpl; auto. f_equal. apply IH. Qed.

Lemma nth_upd_eq {A} (l : list A) i x d : i < length l -> nth i (upd l i x) d = x.
Proof. revert i. induction l as [|h t IH]; intros [|i] H; simpl in *; try lia; auto. apply IH. lia. Qed.
Lemma nth_upd_neq {A} (l : list A) i j x d : i <> j -> nth j (upd l i x) d = nth j l d.
Proof. revert i j. induction l as [|h t IH]; intros [|i] [|j] H; simpl; auto; try congruence. Qed.

Lemma upd_ext {A} (l1 l2 : list A) i x :
  length l1 = length l2 -> (forall p, p <> i -> nth_error l1 p = nth_error l2 p) -> upd l1 i x = upd l2 i x.
Proof. intros HL H. apply nth_error_ext'. intros p. destruct (Nat.eq_dec p i) as [->|N].
  - destruct (Nat.lt_ge_cases i (length l1)) as [Hi|Hi].
    + rewrite !nth_error_upd_eq by lia. reflexivity.
    + rewrite !upd_oob by lia. destruct (nth_error l1 i) eqn:E1; [apply nth_error_Some_lt in E1 || idtac|].
      * assert (i < length l1) by (apply nth_error_Some; congruence). lia.
      * symmetry. apply nth_error_None. lia.
  - rewrite !nth_error_upd_neq by auto. apply H. exact N. Qed.

Lemma firstn_overwrite s content : firstn (length content) (overwrite s content) = content.
Proof. unfold overwrite. rewrite firstn_app, Nat.sub_diag, firstn_all. simpl. apply app_nil_r. Qed.
Lemma length_overwrite s content : length content <= length s -> length (overwrite s content) = length s.
Proof. intros H. unfold overwrite. rewrite app_length, skipn_length. lia. Qed.
Lemma firstn_app_pad (content : list hval) pad : firstn (length content) (content ++ pad) = content.
Proof. rewrite firstn_app, Nat.sub_diag, firstn_all. simpl. apply app_nil_r. Qed.

Lemma abs_length c : length (abs c) = length (cells c).
Proof. unfold abs. apply map_length. Qed.

(* generic update of one cell when all OTHER cells keep their visible content *)
Lemma abs_update c arrays' id cell' content :
  vis_cell (mkC arrays' (upd (cells c) id cell')) cell' = content ->
  (forall p b m, p <> id -> nth_error (cells c) p = Some (b, m) -> nth b arrays' [] = nth b (arrays c) []) ->
  abs (mkC arrays' (upd (cells c) id cell')) = upd (abs c) id content.
Proof. intros Hc Hother. unfold abs at 1. cbn [cells]. rewrite map_upd. rewrite Hc.
  apply upd_ext; [unfold abs; rewrite !map_length; reflexivity|].
  intros p Np. unfold abs. rewrite !nth_error_map. destruct (nth_error (cells c) p) as [[b m]|] eqn:E; [|reflexivity].
  simpl. f_equal. unfold vis_cell, arr_of. cbn [arrays fst snd]. rewrite (Hother p b m Np E). reflexivity. Qed.

Lemma nth_app_l {A} (l l' : list A) n d : n < length l -> nth n (l ++ l') d = nth n l d.
Proof. intros. apply app_nth1. assumption. Qed.
Lemma nth_app_new {A} (l : list A) x d : nth (length l) (l ++ [x]) d = x.
Proof. rewrite app_nth2 by lia. rewrite Nat.sub_diag. reflexivity. Qed.

Section Proofs.
  Variable grow : nat -> nat -> nat.

  Lemma abs_assign c id content : Own c -> abs (assign grow c id content) = upd (abs c) id content.
  Proof. intros [O1 O2]. unfold assign. destruct (nth_error (cells c) id) as [[a n]|] eqn:E.
    - destruct (O1 id a n E) as [Ha Hn].
      destruct (length content <=? length (arr_of c a)) eqn:Fit.
      + apply abs_update.
        * unfold vis_cell, arr_of. cbn [arrays fst snd]. rewrite nth_upd_eq by exact Ha. apply firstn_overwrite.
        * intros p b m Np Ep. cbn [arrays]. apply nth_upd_neq. intros Eab. subst b. apply Np. apply (O2 p id a m a n Ep E eq_refl).
      + apply abs_update.
        * unfold vis_cell, arr_of. cbn [arrays fst snd]. rewrite nth_app_new. apply firstn_app_pad.
        * intros p b m Np Ep. cbn [arrays]. apply nth_app_l. apply (O1 p b m Ep).
    - symmetry. apply upd_oob. rewrite abs_length. apply nth_error_None. exact E. Qed.

  Lemma own_assign c id content : Own c -> Own (assign grow c id content).
  Proof. intros [O1 O2]. unfold assign. destruct (nth_error (cells c) id) as [[a n]|] eqn:E; [|split; assumption].
    destruct (O1 id a n E) as [Ha Hn].
    assert (Hid: id < length (cells c)) by (apply nth_error_Some; congruence).
    destruct (length content <=? length (arr_of c a)) eqn:Fit.
    - apply Nat.leb_le in Fit. split.
      + intros p b m Ep. cbn [cells arrays] in *. unfold arr_of. cbn [arrays]. rewrite upd_length.
        destruct (Nat.eq_dec p id) as [->|Np].
        * rewrite nth_error_upd_eq in Ep by exact Hid. injection Ep as <- <-. split; [exact Ha|].
          rewrite nth_upd_eq by exact Ha. rewrite length_overwrite by exact Fit. exact Fit.
        * rewrite nth_error_upd_neq in Ep by auto. destruct (O1 p b m Ep) as [Hb Hm]. split; [exact Hb|].
          rewrite nth_upd_neq; [exact Hm|]. intros Eab. subst b. apply Np. apply (O2 p id a m a n Ep E eq_refl).
      + intros i j x nx y ny Ei Ej Exy. cbn [cells] in *.
        destruct (Nat.eq_dec i id) as [->|Ni]; destruct (Nat.eq_dec j id) as [->|Nj]; auto.
        * rewrite nth_error_upd_eq in Ei by exact Hid. rewrite nth_error_upd_neq in Ej by auto. injection Ei as <- <-. subst y.
          symmetry. apply (O2 j id a ny a n Ej E eq_refl).
        * rewrite nth_error_upd_neq in Ei by auto. rewrite nth_error_upd_eq in Ej by exact Hid. injection Ej as <- <-. subst x.
          apply (O2 i id a nx a n Ei E eq_refl).
        * rewrite nth_error_upd_neq in Ei, Ej by auto. apply (O2 i j x nx y ny Ei Ej Exy).
    - split.
      + intros p b m Ep. cbn [cells arrays] in *. unfold arr_of. cbn [arrays]. rewrite app_length. cbn [length].
        destruct (Nat.eq_dec p id) as [->|Np].
        * rewrite nth_error_upd_eq in Ep by exact Hid. injection Ep as <- <-. split; [lia|].
          rewrite nth_app_new. rewrite app_length. lia.
        * rewrite nth_error_upd_neq in Ep by auto. destruct (O1 p b m Ep) as [Hb Hm]. split; [lia|].
          rewrite nth_app_l by exact Hb. exact Hm.
      + intros i j x nx y ny Ei Ej Exy. cbn [cells] in *.
        destruct (Nat.eq_dec i id) as [->|Ni]; destruct (Nat.eq_dec j id) as [->|Nj]; auto.
        * rewrite nth_error_upd_eq in Ei by exact Hid. rewrite nth_error_upd_neq in Ej by auto. injection Ei as <- <-. subst y.
          destruct (O1 j _ ny Ej). lia.
        * rewrite nth_error_upd_neq in Ei by auto. rewrite nth_error_upd_eq in Ej by exact Hid. injection Ej as <- <-. subst x.
          destruct (O1 i _ nx Ei). lia.
        * rewrite nth_error_upd_neq in Ei, Ej by auto. apply (O2 i j x nx y ny Ei Ej Exy). Qed.

  Lemma abs_assign_fresh c id content spare : Own c -> abs (assign_fresh c id content spare) = upd (abs c) id content.
  Proof. intros [O1 O2]. unfold assign_fresh. apply abs_update.
    - unfold vis_cell, arr_of. cbn [arrays fst snd]. rewrite nth_app_new. apply firstn_app_pad.
    - intros p b m Np Ep. cbn [arrays]. apply nth_app_l. apply (O1 p b m Ep). Qed.

  Lemma own_assign_fresh c id content spare : Own c -> Own (assign_fresh c id content spare).
  Proof. intros [O1 O2]. unfold assign_fresh.
    destruct (Nat.lt_ge_cases id (length (cells c))) as [Hid|Hid].
    - split.
      + intros p b m Ep. cbn [cells arrays] in *. unfold arr_of. cbn [arrays]. rewrite app_length. cbn [length].
        destruct (Nat.eq_dec p id) as [->|Np].
        * rewrite nth_error_upd_eq in Ep by exact Hid. injection Ep as <- <-. split; [lia|].
          rewrite nth_app_new. rewrite app_length. lia.
        * rewrite nth_error_upd_neq in Ep by auto. destruct (O1 p b m Ep) as [Hb Hm]. split; [lia|].
          rewrite nth_app_l by exact Hb. exact Hm.
      + intros i j x nx y ny Ei Ej Exy. cbn [cells] in *.
        destruct (Nat.eq_dec i id) as [->|Ni]; destruct (Nat.eq_dec j id) as [->|Nj]; auto.
        * rewrite nth_error_upd_eq in Ei by exact Hid. rewrite nth_error_upd_neq in Ej by auto. injection Ei as <- <-. subst y.
          destruct (O1 j _ ny Ej). lia.
        * rewrite nth_error_upd_neq in Ei by auto. rewrite nth_error_upd_eq in Ej by exact Hid. injection Ej as <- <-. subst x.
          destruct (O1 i _ nx Ei). lia.
        * rewrite nth_error_upd_neq in Ei, Ej by auto. apply (O2 i j x nx y ny Ei Ej Exy).
    - cbn [cells]. rewrite upd_oob by exact Hid. split.
      + intros p b m Ep. cbn [cells arrays] in *. unfold arr_of. cbn [arrays]. rewrite app_length. cbn [length].
        destruct (O1 p b m Ep) as [Hb Hm]. split; [lia|]. rewrite nth_app_l by exact Hb. exact Hm.
      + intros i j x nx y ny Ei Ej Exy. cbn [cells] in *. apply (O2 i j x nx y ny Ei Ej Exy). Qed.

  Lemma abs_new_cell c content spare : Own c -> abs (new_cell c content spare) = abs c ++ [content].
  Proof. intros [O1 O2]. unfold new_cell, abs. cbn [cells]. rewrite map_app. cbn [map]. f_equal.
    - apply map_ext_in. intros [b m] Hin. apply In_nth_error in Hin as [p Ep].
      unfold vis_cell, arr_of. cbn [arrays fst snd]. rewrite nth_app_l by apply (O1 p b m Ep). reflexivity.
    - unfold vis_cell, arr_of. cbn [arrays fst snd]. rewrite nth_app_new. rewrite firstn_app_pad. reflexivity. Qed.

  Lemma own_new_cell c content spare : Own c -> Own (new_cell c content spare).
  Proof. intros [O1 O2]. unfold new_cell. split.
    - intros p b m Ep. cbn [cells arrays] in *. unfold arr_of. cbn [arrays]. rewrite app_length. cbn [length].
      destruct (Nat.lt_ge_cases p (length (cells c))) as [Hp|Hp].
      + rewrite nth_error_app1 in Ep by exact Hp. destruct (O1 p b m Ep) as [Hb Hm]. split; [lia|]. rewrite nth_app_l by exact Hb. exact Hm.
      + rewrite nth_error_app2 in Ep by exact Hp. destruct (p - length (cells c)) as [|k] eqn:K; simpl in Ep; [|destruct k; discriminate].
        injection Ep as <- <-. split; [lia|]. rewrite nth_app_new. rewrite app_length. lia.
    - intros i j x nx y ny Ei Ej Exy. cbn [cells] in *.
      destruct (Nat.lt_ge_cases i (length (cells c))) as [Hi|Hi]; destruct (Nat.lt_ge_cases j (length (cells c))) as [Hj|Hj].
      + rewrite nth_error_app1 in Ei, Ej by assumption. apply (O2 i j x nx y ny Ei Ej Exy).
      + rewrite nth_error_app1 in Ei by assumption. rewrite nth_error_app2 in Ej by assumption.
        destruct (j - length (cells c)) as [|k] eqn:K; simpl in Ej; [|destruct k; discriminate]. injection Ej as <- <-.
        destruct (O1 i x nx Ei). lia.
      + rewrite nth_error_app2 in Ei by assumption. rewrite nth_error_app1 in Ej by assumption.
        destruct (i - length (cells c)) as [|k] eqn:K; simpl in Ei; [|destruct k; discriminate]. injection Ei as <- <-.
        destruct (O1 j y ny Ej). lia.
      + rewrite nth_error_app2 in Ei, Ej by assumption.
        destruct (i - length (cells c)) as [|k] eqn:K; simpl in Ei; [|destruct k; discriminate].
        destruct (j - length (cells c)) as [|k'] eqn:K'; simpl in Ej; [|destruct k'; discriminate]. lia. Qed.

  Lemma vis_abs c id : vis c id = nth id (abs c) []. Proof. reflexivity. Qed.

  Lemma nth_upd_same {A} (l : list A) i x d : nth i (upd l i x) d = if i <? length l then x else d.
  Proof. destruct (Nat.ltb_spec i (length l)) as [H|H]; [apply nth_upd_eq; exact H | rewrite upd_oob by exact H; apply nth_overflow; exact H]. Qed.

  (* Add: one append at a time *)
  Lemma add_each_spec vs : forall c id, Own c ->
    Own (add_each grow c id vs) /\ abs (add_each grow c id vs) = upd (abs c) id (vis c id ++ vs).
  Proof. induction vs as [|v t IH]; intros c id O; simpl.
    - split; [exact O|]. rewrite app_nil_r. unfold vis.
      destruct (Nat.lt_ge_cases id (length (abs c))) as [H|H].
      + apply nth_error_ext'. intros p. destruct (Nat.eq_dec p id) as [->|N].
        * rewrite nth_error_upd_eq by exact H. apply nth_error_nth'. exact H.
        * rewrite nth_error_upd_neq by auto. reflexivity.
      + rewrite upd_oob by exact H. reflexivity.
    - destruct (IH (assign grow c id (vis c id ++ [v])) id (own_assign c id _ O)) as [O' A']. split; [exact O'|].
      rewrite A'. unfold vis. rewrite !abs_assign by exact O.
      destruct (Nat.lt_ge_cases id (length (abs c))) as [H|H].
      + rewrite nth_upd_eq by exact H. rewrite <- app_assoc. simpl.
        apply nth_error_ext'. intros p. destruct (Nat.eq_dec p id) as [->|N].
        * rewrite !nth_error_upd_eq by (rewrite ?upd_length; exact H). reflexivity.
        * rewrite !nth_error_upd_neq by auto. reflexivity.
      + rewrite !upd_oob by (rewrite ?upd_length; exact H). reflexivity. Qed.

  Lemma upd_upd {A} (l : list A) i x y : upd (upd l i x) i y = upd l i y.
  Proof. revert i. induction l as [|h t IH]; intros [|i]; simpl; auto. f_equal. apply IH. Qed.

  Lemma delete_each_spec idxs : forall c id, Own c -> id < length (cells c) ->
    let '(c', p) := delete_each grow c id idxs in
    Own c' /\ abs c' = upd (abs c) id (fst (delete_desc (vis c id) idxs)) /\ p = snd (delete_desc (vis c id) idxs).
  Proof. induction idxs as [|i t IH]; intros c id O Hid; simpl.
    - split; [exact O|]. split; [|reflexivity].
      unfold vis. apply nth_error_ext'. intros p. destruct (Nat.eq_dec p id) as [->|N].
      + rewrite nth_error_upd_eq by (rewrite abs_length; exact Hid). apply nth_error_nth'. rewrite abs_length. exact Hid.
      + rewrite nth_error_upd_neq by auto. reflexivity.
    - destruct (in_range i (length (vis c id))) eqn:R.
      + set (c1 := assign grow c id (remove_nth (Z.to_nat i) (vis c id))).
        assert (O1: Own c1) by (apply own_assign; exact O).
        assert (A1: abs c1 = upd (abs c) id (remove_nth (Z.to_nat i) (vis c id))) by (apply abs_assign; exact O).
        assert (H1: id < length (cells c1)) by (rewrite <- abs_length, A1, upd_length, abs_length; exact Hid).
        specialize (IH c1 id O1 H1). destruct (delete_each grow c1 id t) as [c' p].
        destruct IH as [O' [A' P']]. split; [exact O'|].
        assert (V1: vis c1 id = remove_nth (Z.to_nat i) (vis c id)).
        { unfold vis at 1. rewrite A1. apply nth_upd_eq. rewrite abs_length. exact Hid. }
        rewrite V1 in A', P'. split; [|exact P']. rewrite A', A1. apply upd_upd.
      + split; [exact O|]. split; [|reflexivity]. simpl.
        unfold vis. apply nth_error_ext'. intros p. destruct (Nat.eq_dec p id) as [->|N].
        * rewrite nth_error_upd_eq by (rewrite abs_length; exact Hid). apply nth_error_nth'. rewrite abs_length. exact Hid.
        * rewrite nth_error_upd_neq by auto. reflexivity. Qed.

  Lemma upd_same_nth {A} (l : list A) i d : upd l i (nth i l d) = l.
  Proof. revert i. induction l as [|h t IH]; intros [|i]; simpl; auto. f_equal. apply IH. Qed.

  (* out-of-range ids: both sides ignore the write *)
  Lemma delete_each_oob idxs : forall c id, length (cells c) <= id ->
    let '(c', p) := delete_each grow c id idxs in c' = c /\ p = snd (delete_desc (vis c id) idxs).
  Proof. induction idxs as [|i t IH]; intros c id Hid; simpl; [auto|].
    assert (V: vis c id = []) by (unfold vis; apply nth_overflow; rewrite abs_length; exact Hid).
    rewrite V. assert (R: in_range i (length (@nil hval)) = false) by (unfold in_range; simpl; lia). rewrite R. auto. Qed.

  (* ---------- one step: ownership is preserved, outcomes agree, and the visible contents follow the sequence model ---------- *)
  Theorem step_refines c o : Own c ->
    Own (fst (cstep grow c o)) /\ snd (cstep grow c o) = snd (astep (abs c) o) /\ abs (fst (cstep grow c o)) = fst (astep (abs c) o).
  Proof. intros O. destruct o as [vs spare|id vs|id i v|id i v|id idxs|id|id|id|id|id s e|id id2|id i|id]; cbn [cstep astep]; unfold vis.
    - cbn [fst snd]. split; [apply own_new_cell; exact O|]. split; [reflexivity | apply abs_new_cell; exact O].
    - cbn [fst snd]. destruct (add_each_spec vs c id O) as [O' A']. split; [exact O'|]. split; [reflexivity | exact A'].
    - destruct (l_insert (nth id (abs c) []) i v) as [l'|]; cbn [fst snd]; [|auto].
      split; [apply own_assign; exact O|]. split; [reflexivity | apply abs_assign; exact O].
    - destruct (l_replace (nth id (abs c) []) i v) as [l'|]; cbn [fst snd]; [|auto].
      split; [apply own_assign; exact O|]. split; [reflexivity | apply abs_assign; exact O].
    - unfold l_delete. destruct (Nat.lt_ge_cases id (length (cells c))) as [Hid|Hid].
      + pose proof (delete_each_spec (rev (isort Z.leb idxs)) c id O Hid) as H. unfold vis in H.
        destruct (delete_each grow c id (rev (isort Z.leb idxs))) as [c' p]. destruct H as [O' [A' P']].
        destruct (delete_desc (nth id (abs c) []) (rev (isort Z.leb idxs))) as [l' p'] eqn:D. cbn [fst snd] in *. subst p'. auto.
      + pose proof (delete_each_oob (rev (isort Z.leb idxs)) c id Hid) as H. unfold vis in H.
        destruct (delete_each grow c id (rev (isort Z.leb idxs))) as [c' p]. destruct H as [-> P'].
        destruct (delete_desc (nth id (abs c) []) (rev (isort Z.leb idxs))) as [l' p'] eqn:D. cbn [fst snd] in *. subst p'.
        split; [exact O|]. split; [reflexivity|]. symmetry. apply upd_oob. rewrite abs_length. exact Hid.
    - unfold l_pop, l_delete. cbn [isort insert rev app].
      destruct (Nat.lt_ge_cases id (length (cells c))) as [Hid|Hid].
      + pose proof (delete_each_spec [(Z.of_nat (length (vis c id)) - 1)%Z] c id O Hid) as H. unfold vis in H.
        destruct (delete_each grow c id [(Z.of_nat (length (nth id (abs c) [])) - 1)%Z]) as [c' p]. destruct H as [O' [A' P']].
        destruct (delete_desc (nth id (abs c) []) [(Z.of_nat (length (nth id (abs c) [])) - 1)%Z]) as [l' p'] eqn:D. cbn [fst snd] in *. subst p'. auto.
      + pose proof (delete_each_oob [(Z.of_nat (length (vis c id)) - 1)%Z] c id Hid) as H. unfold vis in H.
        destruct (delete_each grow c id [(Z.of_nat (length (nth id (abs c) [])) - 1)%Z]) as [c' p]. destruct H as [-> P'].
        destruct (delete_desc (nth id (abs c) []) [(Z.of_nat (length (nth id (abs c) [])) - 1)%Z]) as [l' p'] eqn:D. cbn [fst snd] in *. subst p'.
        split; [exact O|]. split; [reflexivity|]. symmetry. apply upd_oob. rewrite abs_length. exact Hid.
    - cbn [fst snd]. split; [apply own_assign_fresh; exact O|]. split; [reflexivity | apply abs_assign_fresh; exact O].
    - cbn [fst snd]. split; [apply own_assign; exact O|]. split; [reflexivity | apply abs_assign; exact O].
    - destruct (l_sort (nth id (abs c) [])) as [l'|]; cbn [fst snd]; [|auto].
      split; [apply own_assign_fresh; exact O|]. split; [reflexivity | apply abs_assign_fresh; exact O].
    - destruct (l_sublist (nth id (abs c) []) s e) as [l'|]; cbn [fst snd]; [|auto].
      split; [apply own_new_cell; exact O|]. split; [reflexivity | apply abs_new_cell; exact O].
    - cbn [fst snd]. split; [apply own_new_cell; exact O|]. split; [reflexivity | apply abs_new_cell; exact O].
    - cbn [fst snd]. auto.
    - cbn [fst snd]. auto. Qed.

  (* ---------- every program: same outcomes, same visible contents, for every growth policy ---------- *)
  Theorem program_refines prog : forall c, Own c ->
    fst (crun grow c prog) = fst (arun (abs c) prog) /\ abs (snd (crun grow c prog)) = snd (arun (abs c) prog) /\ Own (snd (crun grow c prog)).
  Proof. induction prog as [|o t IH]; intros c O; cbn [crun arun]; [auto|].
    destruct (step_refines c o O) as [O1 [E1 A1]].
    destruct (cstep grow c o) as [c1 oc] eqn:CS. destruct (astep (abs c) o) as [s1 oc'] eqn:AS. cbn [fst snd] in *. subst oc' s1.
    destruct (IH c1 O1) as [F [A O2]].
    destruct (crun grow c1 t) as [ocs c2]. destruct (arun (abs c1) t) as [ocs' s2]. cbn [fst snd] in *. subst. auto. Qed.
End Proofs.

Definition empty_c : cstate := mkC [] [].
Lemma own_empty : Own empty_c.
Proof. split; intros; destruct id || destruct i; simpl in *; discriminate. Qed.

(* the growth policy is unobservable *)
Corollary growth_irrelevant g1 g2 prog :
  fst (crun g1 empty_c prog) = fst (crun g2 empty_c prog) /\ abs (snd (crun g1 empty_c prog)) = abs (snd (crun g2 empty_c prog)).
Proof. destruct (program_refines g1 prog empty_c own_empty) as [A1 [B1 _]]. destruct (program_refines g2 prog empty_c own_empty) as [A2 [B2 _]].
  split; congruence. Qed.

(* ---------- the pre-fix Concat is refuted: with spare capacity the result aliases the receiver ---------- *)
Definition exact_fit (c n : nat) : nat := n.
Definition doubling (c n : nat) : nat := Nat.max n (2 * c).
Example old_concat_refuted :
  (* l := [1,2,3,4]; l.Pop(); c := l.Concat([9]); l.Add(7)  — c must stay [1,2,3,9] *)
  let c0 := fst (cstep doubling empty_c (CNew [] 0)) in
  let c1 := fst (cstep doubling c0 (CAdd 0 [HInt 1; HInt 2; HInt 3; HInt 4])) in
  let c2 := fst (cstep doubling c1 (CPop 0)) in
  let c3 := fst (cstep doubling c2 (CNew [HInt 9] 0)) in
  let c4 := old_concat doubling c3 0 1 in
  let c5 := fst (cstep doubling c4 (CAdd 0 [HInt 7])) in
  vis c4 2 = [HInt 1; HInt 2; HInt 3; HInt 9] /\ vis c5 2 = [HInt 1; HInt 2; HInt 3; HInt 7] /\ ~ Own c4.
Proof. vm_compute. split; [reflexivity|]. split; [reflexivity|].
  intros [_ O2]. assert (E: 0 = 2) by (eapply O2; reflexivity). discriminate. Qed.
