(* HeapExt.v — the rest of the public API on the reference heap of Heap.v, so that EVERY method of both interfaces can occur
   in one program, interleaved with mutations through aliases:
   views with callbacks (the Filter, Map, ForEach and Reduce families), typed slices, the All family, the numeric aggregates, String / FormatString
   (as the data they denote), NativeSlice / NativeDict, NewListFrom / NewObjectFrom, and the async variants.
   An extended program is a list of [xop]; [Base o] is an operation of Heap.v and behaves exactly as there. *)
From Anytype Require Import Base FloatBits Value GoInt Sorting Equality Heap Aggregates.
Local Open Scope Z_scope.

(* ---------- callbacks: a finite family, mirrored one by one in the Go harness (harness/heapext.go) ---------- *)
Inductive hpred := PTruthy | PKindIs (k : kind) | PAll | PNone.
Inductive hmapf := MId | MPair | MDict | MNil.
(* what a Map callback returns, before parseVal normalises it: a scalar / an existing container (by reference), a fresh []any,
   or a fresh map[string]any *)
Inductive cbres := CV (v : hval) | CSlice (l : list hval) | CMap (kvs : list (bytes * hval)).

Definition h_truthy (h : heap) (v : hval) : bool :=
  match v with
  | HNil => false
  | HBool b => b
  | HInt z => 0 <? z
  | HFloat b => flt 0 b
  | HStr s => match s with [] => false | _ => true end
  | HL id => match get_list h id with Some (_ :: _) => true | _ => false end      (* Count() > 0 *)
  | HO id => match get_obj h id with Some (_ :: _) => true | _ => false end
  end.
Definition apply_pred (p : hpred) (h : heap) (v : hval) : bool :=
  match p with
  | PTruthy => h_truthy h v
  | PKindIs k => kind_eqb (hkind v) k
  | PAll => true
  | PNone => false
  end.
(* [tag]: the index (Map), the key (object Map) or the kind code of the value (MapValues and the typed variants) *)
Definition apply_mapf (f : hmapf) (tag x : hval) : cbres :=
  match f with
  | MId => CV x
  | MPair => CSlice [tag; x]
  | MDict => CMap [(B"t", tag); (B"v", x)]
  | MNil => CV HNil
  end.
(* parseVal on a callback result: []any / map[string]any become NEW containers, everything else is stored as it is *)
Definition store (h : heap) (c : cbres) : heap * hval :=
  match c with
  | CV v => (h, v)
  | CSlice l => let '(h1, id) := alloc h (CList l) in (h1, HL id)
  | CMap kvs => let '(h1, id) := alloc h (CObj kvs) in (h1, HO id)
  end.

Definition kind_tag (x : hval) : hval := HInt (kind_code (hkind x)).
Definition sel_kind (k : kind) (x : hval) : bool := kind_eqb (hkind x) k.

(* "result := NewList(); for i, item := range ego.val { if selected { result.Add(function(...)) } }" *)
Fixpoint map_loop (sel : hval -> bool) (f : hmapf) (tagf : Z -> hval -> hval) (h : heap) (l : list hval) (i : Z) (acc : list hval)
  : heap * list hval :=
  match l with
  | [] => (h, acc)
  | x :: t => if sel x
              then let '(h1, v) := store h (apply_mapf f (tagf i x) x) in map_loop sel f tagf h1 t (i + 1) (acc ++ [v])
              else map_loop sel f tagf h t (i + 1) acc
  end.
(* "result := NewObject(); for k, v := range ego.val { if selected { result.Set(k, function(...)) } }" *)
Fixpoint omap_loop (sel : hval -> bool) (f : hmapf) (tagf : bytes -> hval -> hval) (h : heap) (kvs : list (bytes * hval))
  (acc : list (bytes * hval)) : heap * list (bytes * hval) :=
  match kvs with
  | [] => (h, acc)
  | (k, x) :: t => if sel x
                   then let '(h1, v) := store h (apply_mapf f (tagf k x) x) in omap_loop sel f tagf h1 t (aset k v acc)
                   else omap_loop sel f tagf h t acc
  end.

Definition filter_loop (sel : hval -> bool) (l : list hval) : list hval :=
  fold_left (fun acc x => if sel x then acc ++ [x] else acc) l [].
Fixpoint index_log (l : list hval) (i : Z) : list (Z * hval) :=
  match l with [] => [] | x :: t => (i, x) :: index_log t (i + 1) end.

(* ---------- native sources for NewListFrom / NewObjectFrom: []any / map[string]any trees whose leaves are scalars or
   containers that already exist (by register) ---------- *)
Inductive nsrc : Type :=
| NOp (o : operand)
| NSlice (l : list nsrc)
| NMap (kvs : list (bytes * nsrc)).

Fixpoint store_src (env : list hval) (h : heap) (n : nsrc) : option (heap * hval) :=
  match n with
  | NOp o => match eval_operand env o with Some v => Some (h, v) | None => None end
  | NSlice l =>
      match (fix go (h : heap) (l : list nsrc) : option (heap * list hval) :=
               match l with
               | [] => Some (h, [])
               | x :: t => match store_src env h x with
                           | None => None
                           | Some (h1, v) => match go h1 t with Some (h2, vs) => Some (h2, v :: vs) | None => None end
                           end
               end) h l with
      | Some (h1, vs) => let '(h2, id) := alloc h1 (CList vs) in Some (h2, HL id)
      | None => None
      end
  | NMap kvs =>
      match (fix go (h : heap) (l : list (bytes * nsrc)) : option (heap * list (bytes * hval)) :=
               match l with
               | [] => Some (h, [])
               | (k, x) :: t => match store_src env h x with
                                | None => None
                                | Some (h1, v) => match go h1 t with Some (h2, vs) => Some (h2, aset k v vs) | None => None end
                                end
               end) h kvs with
      | Some (h1, vs) => let '(h2, id) := alloc h1 (CObj vs) in Some (h2, HO id)
      | None => None
      end
  end.

(* ---------- what String() / FormatString() / NativeSlice() / NativeDict() denote: the value tree, object members by sorted key ---------- *)
Fixpoint vcanon (v : val) : val :=
  match v with
  | VList l => VList (map vcanon l)
  | VObj kvs => VObj (isort (fun a b => bytes_leb (fst a) (fst b))
                        ((fix go (l : list (bytes * val)) : list (bytes * val) :=
                            match l with [] => [] | kv :: t => (fst kv, vcanon (snd kv)) :: go t end) kvs))
  | _ => v
  end.

(* ---------- outcomes ---------- *)
Inductive xout : Type :=
| XO (o : out)
| XBag (l : list hval)                 (* a call log whose order is the runtime's map iteration order: compared as a multiset *)
| XIdx (l : list (Z * hval))           (* (index, value) call log *)
| XTree (v : val).
Inductive xoutcome : Type := XRet (o : xout) | XPan.
Definition lift (oc : outcome) : xoutcome := match oc with Ret o => XRet (XO o) | Pan => XPan end.

Inductive agg := ASum | AProd | AAvg | AMin | AMax | AIntSum | AIntProd | AIntMin | AIntMax.

Inductive xop : Type :=
| Base (o : op)
| XNewListFrom (src : list nsrc)
| XNewObjectFrom (src : list (bytes * nsrc))
(* list views *)
| XLFilter (r : nat) (p : hpred)
| XLFilterK (k : kind) (r : nat) (p : hpred)
| XLMap (r : nat) (f : hmapf)
| XLMapValues (r : nat) (f : hmapf)
| XLMapK (k : kind) (r : nat) (f : hmapf)
| XLMapAsync (r : nat) (f : hmapf)
| XLForEach (r : nat)
| XLForEachValue (r : nat)
| XLForEachK (k : kind) (r : nat)
| XLForEachAsync (r : nat)
| XLReduce (r : nat)
| XLReduceStr (r : nat)
| XLReduceInt (r : nat)
| XLReduceFloat (r : nat)
| XLSliceK (k : kind) (r : nat)
| XLAll (k : kind) (r : nat)
| XLAllNumeric (r : nat)
| XLAgg (a : agg) (r : nat)
(* object views *)
| XOForEach (r : nat)
| XOForEachValue (r : nat)
| XOForEachK (k : kind) (r : nat)
| XOForEachAsync (r : nat)
| XOMap (r : nat) (f : hmapf)
| XOMapValues (r : nat) (f : hmapf)
| XOMapK (k : kind) (r : nat) (f : hmapf)
| XOMapAsync (r : nat) (f : hmapf)
(* both *)
| XString (r : nat)
| XFormat (r : nat) (n : Z)
| XNative (r : nat).

Definition xbad (s : state) : state * xoutcome := (s, XRet (XO OBad)).

(* the callbacks of the typed Reduce variants (the same ones as RunPure.v uses on value trees) *)
Definition red_str (acc : bytes) (x : hval) : bytes := match x with HStr s => acc ++ [x7c] ++ s | _ => acc end.
Definition red_int (acc : Z) (x : hval) : Z := match x with HInt z => wrap64 (wrap64 (acc * 31) + z) | _ => acc end.
Definition red_float (acc : Z) (x : hval) : Z := match x with HFloat b => if flt acc b then b else acc | _ => acc end.

Section XStep.
  (* float arithmetic is an oracle, exactly as in Aggregates.v (executed through FloatExec.v by the runner) *)
  Variable fadd fmul fdiv : Z -> Z -> Z.
  Variable of_int : Z -> Z.

  Definition agg_model (a : agg) (l : list val) : xoutcome :=
    let f (z : Z) := XRet (XO (OV (HFloat z))) in
    let i (z : Z) := XRet (XO (OZ z)) in
    match a with
    | ASum => f (Sum fadd of_int l)
    | AProd => f (Prod fmul of_int l)
    | AAvg => f (Avg fadd fdiv of_int l)
    | AMin => match Min of_int l with Ok z => f z | Panic => XPan end
    | AMax => match Max of_int l with Ok z => f z | Panic => XPan end
    | AIntSum => i (IntSum l)
    | AIntProd => i (IntProd l)
    | AIntMin => i (IntMin l)
    | AIntMax => i (IntMax l)
    end.

  Definition new_list (s : state) (h : heap) (l : list hval) : state * xoutcome :=
    let '(h1, id) := alloc h (CList l) in (with_heap s h1, XRet (XO (OV (HL id)))).
  Definition new_obj (s : state) (h : heap) (kvs : list (bytes * hval)) : state * xoutcome :=
    let '(h1, id) := alloc h (CObj kvs) in (with_heap s h1, XRet (XO (OV (HO id)))).

  Definition xstep_core (s : state) (o : xop) : state * xoutcome :=
    let h := st_heap s in
    let env := st_env s in
    match o with
    | Base b => let '(s1, oc) := step_core s b in (s1, lift oc)
    | XNewListFrom src =>
        match store_src env h (NSlice src) with Some (h1, v) => (with_heap s h1, XRet (XO (OV v))) | None => xbad s end
    | XNewObjectFrom src =>
        match store_src env h (NMap src) with Some (h1, v) => (with_heap s h1, XRet (XO (OV v))) | None => xbad s end
    | XLFilter r p =>
        match reg_list s r with Some (_, l) => new_list s h (filter_loop (apply_pred p h) l) | None => xbad s end
    | XLFilterK k r p =>
        match reg_list s r with Some (_, l) => new_list s h (filter_loop (fun x => sel_kind k x && apply_pred p h x) l) | None => xbad s end
    | XLMap r f | XLMapAsync r f =>
        match reg_list s r with
        | Some (_, l) => let '(h1, res) := map_loop (fun _ => true) f (fun i _ => HInt i) h l 0 [] in new_list s h1 res
        | None => xbad s
        end
    | XLMapValues r f =>
        match reg_list s r with
        | Some (_, l) => let '(h1, res) := map_loop (fun _ => true) f (fun _ x => kind_tag x) h l 0 [] in new_list s h1 res
        | None => xbad s
        end
    | XLMapK k r f =>
        match reg_list s r with
        | Some (_, l) => let '(h1, res) := map_loop (sel_kind k) f (fun _ x => kind_tag x) h l 0 [] in new_list s h1 res
        | None => xbad s
        end
    | XLForEach r | XLForEachAsync r =>
        match reg_list s r with Some (_, l) => (s, XRet (XIdx (index_log l 0))) | None => xbad s end
    | XLForEachValue r | XLReduce r =>
        match reg_list s r with Some (_, l) => (s, XRet (XO (OVs l))) | None => xbad s end
    | XLForEachK k r | XLSliceK k r =>
        match reg_list s r with Some (_, l) => (s, XRet (XO (OVs (filter_loop (sel_kind k) l)))) | None => xbad s end
    | XLReduceStr r =>
        match reg_list s r with Some (_, l) => (s, XRet (XO (OV (HStr (fold_left red_str l [x3e]))))) | None => xbad s end
    | XLReduceInt r =>
        match reg_list s r with Some (_, l) => (s, XRet (XO (OZ (fold_left red_int l 7)))) | None => xbad s end
    | XLReduceFloat r =>
        match reg_list s r with Some (_, l) => (s, XRet (XO (OV (HFloat (fold_left red_float l fnegmax))))) | None => xbad s end
    | XLAll k r =>
        match reg_list s r with Some (_, l) => (s, XRet (XO (OB (forallb (sel_kind k) l)))) | None => xbad s end
    | XLAllNumeric r =>
        match reg_list s r with
        | Some (_, l) => (s, XRet (XO (OB (forallb (fun x => sel_kind KInt x || sel_kind KFloat x) l))))
        | None => xbad s
        end
    | XLAgg a r =>
        match reg_list s r with Some (_, l) => (s, agg_model a (map val_of_hscalar l)) | None => xbad s end
    | XOForEach r | XOForEachAsync r =>
        match reg_obj s r with Some (_, kvs) => (s, XRet (XO (OKVs (sorted_kvs kvs)))) | None => xbad s end
    | XOForEachValue r =>
        match reg_obj s r with Some (_, kvs) => (s, XRet (XBag (map snd kvs))) | None => xbad s end
    | XOForEachK k r =>
        match reg_obj s r with Some (_, kvs) => (s, XRet (XBag (filter_loop (sel_kind k) (map snd kvs)))) | None => xbad s end
    | XOMap r f | XOMapAsync r f =>
        match reg_obj s r with
        | Some (_, kvs) => let '(h1, res) := omap_loop (fun _ => true) f (fun k _ => HStr k) h kvs [] in new_obj s h1 res
        | None => xbad s
        end
    | XOMapValues r f =>
        match reg_obj s r with
        | Some (_, kvs) => let '(h1, res) := omap_loop (fun _ => true) f (fun _ x => kind_tag x) h kvs [] in new_obj s h1 res
        | None => xbad s
        end
    | XOMapK k r f =>
        match reg_obj s r with
        | Some (_, kvs) => let '(h1, res) := omap_loop (sel_kind k) f (fun _ x => kind_tag x) h kvs [] in new_obj s h1 res
        | None => xbad s
        end
    | XString r | XNative r =>
        match nth_error env r with
        | Some v => match reify (fuel_of h) h v with Some t => (s, XRet (XTree (vcanon t))) | None => xbad s end
        | None => xbad s
        end
    | XFormat r n =>
        match nth_error env r with
        | Some v => if (n <? 0) || (10 <? n) then (s, XPan)
                    else match reify (fuel_of h) h v with Some t => (s, XRet (XTree (vcanon t))) | None => xbad s end
        | None => xbad s
        end
    end.

  (* a returned container becomes a new variable, as in Heap.step *)
  Definition xstep (s : state) (o : xop) : state * xoutcome :=
    let '(s1, oc) := xstep_core s o in
    match oc with
    | XRet (XO (OV (HL id))) => (mkState (st_heap s1) (st_env s1 ++ [HL id]), oc)
    | XRet (XO (OV (HO id))) => (mkState (st_heap s1) (st_env s1 ++ [HO id]), oc)
    | _ => (s1, oc)
    end.

  Fixpoint xrun (s : state) (prog : list xop) : list (xoutcome * Z) :=
    match prog with
    | [] => []
    | o :: t => let '(s1, oc) := xstep s o in (oc, canon_env (st_heap s1) (st_env s1)) :: xrun s1 t
    end.

  Definition xexec (s : state) (ops : list xop) : state := fold_left (fun s o => fst (xstep s o)) ops s.
End XStep.

(* classification used by the theorems *)
Definition xderiving (o : xop) : bool :=
  match o with
  | Base b => match b with
              | LSubList _ _ _ | LConcat _ _ | LCount _ | LEmpty _ | LGet _ _ | LGetTyped _ _ _ | LTypeOf _ _ | LSlice _ | LContains _ _ | LIndexOf _ _
              | OMerge _ _ | OPluck _ _ | OGet _ _ | OGetTyped _ _ _ | OTypeOf _ _ | OKeyExists _ _ | OCount _ | OEmpty _ | OKeys _ _ | OValues _ _
              | ODict _ | OContains _ _ | OKeyOf _ _ _ | Clone _ | Equals _ _ | GetTF _ _ | TypeOfTF _ _ => true
              | _ => false
              end
  | _ => true        (* every operation added here produces a new container or a plain value *)
  end.
Definition xcreating (o : xop) : bool :=
  match o with
  | Base b => match b with LSubList _ _ _ | LConcat _ _ | OMerge _ _ | OPluck _ _ | OKeys _ _ | OValues _ _ | Clone _ => true | _ => false end
  | XNewListFrom _ | XNewObjectFrom _
  | XLFilter _ _ | XLFilterK _ _ _ | XLMap _ _ | XLMapValues _ _ | XLMapK _ _ _ | XLMapAsync _ _
  | XOMap _ _ | XOMapValues _ _ | XOMapK _ _ _ | XOMapAsync _ _ => true
  | _ => false
  end.

(* ================= which literals an operation may mention ================= *)
Definition scalar (v : hval) : Prop := match v with HL _ | HO _ => False | _ => True end.
Definition scalarb (v : hval) : bool := match v with HL _ | HO _ => false | _ => true end.
Definition operand_ok (o : operand) : Prop := match o with Lit v => scalar v | Reg _ => True end.
Definition operand_okb (o : operand) : bool := match o with Lit v => scalarb v | Reg _ => true end.

(* every operand occurring in an operation *)
Definition op_operands (o : op) : list operand :=
  match o with
  | NewList vs | NewObject vs | LAdd _ vs | OSet _ vs => vs
  | NewListOf v _ | LInsert _ _ v | LReplace _ _ v | LContains _ v | LIndexOf _ v | OContains _ v | OKeyOf _ v _ | SetTF _ _ v => [v]
  | _ => []
  end.
Fixpoint nsrc_operands (n : nsrc) : list operand :=
  match n with
  | NOp o => [o]
  | NSlice l => flat_map nsrc_operands l
  | NMap kvs => flat_map (fun kv => nsrc_operands (snd kv)) kvs
  end.
Definition xop_operands (o : xop) : list operand :=
  match o with
  | Base b => op_operands b
  | XNewListFrom src => nsrc_operands (NSlice src)
  | XNewObjectFrom src => nsrc_operands (NMap src)
  | _ => []
  end.

(* every [Lit v] operand of the operation is a scalar *)
Definition op_ok (o : op) : Prop := Forall operand_ok (op_operands o).
Definition xop_ok (o : xop) : Prop := Forall operand_ok (xop_operands o).
Definition op_okb (o : op) : bool := forallb operand_okb (op_operands o).
Definition xop_okb (o : xop) : bool := forallb operand_okb (xop_operands o).

(* ================= the storing discipline under which programs keep every container acyclic (theorems: Acyclic.v) ================= *)
Fixpoint reachb (fuel : nat) (h : heap) (v : hval) (id : nat) : bool :=
  match fuel with
  | O => false
  | S f =>
      match v with
      | HL i => Nat.eqb i id || match get_list h i with
                                | Some l => existsb (fun x => reachb f h x id) l
                                | None => false
                                end
      | HO i => Nat.eqb i id || match get_obj h i with
                                | Some kvs => existsb (fun kv => reachb f h (snd kv) id) kvs
                                | None => false
                                end
      | _ => false
      end
  end.

Definition same_cont (x y : hval) : bool :=
  match x, y with
  | HL i, HL j | HL i, HO j | HO i, HL j | HO i, HO j => Nat.eqb i j
  | _, _ => false
  end.
(* x may be stored into the existing container id: x is not that container and does not reach it *)
Definition store_okb (h : heap) (id : nat) (x : hval) : bool :=
  negb (same_cont x (HL id)) && negb (reachb (S (length h)) h x id).
(* x may be stored somewhere below root by SetTF: x is not the root and reaches no container reachable from the root *)
Definition tf_store_okb (h : heap) (root x : hval) : bool :=
  negb (same_cont x root) &&
  forallb (fun id => negb (reachb (S (length h)) h root id && reachb (S (length h)) h x id)) (seq 0 (length h)).

Definition stores_okb (s : state) (o : xop) : bool :=
  match o with
  | Base (LAdd r vs) =>
      match reg_list s r, eval_operands (st_env s) vs with
      | Some (id, _), Some xs => forallb (store_okb (st_heap s) id) xs
      | _, _ => true
      end
  | Base (LInsert r _ v) | Base (LReplace r _ v) =>
      match reg_list s r, eval_operand (st_env s) v with
      | Some (id, _), Some x => store_okb (st_heap s) id x
      | _, _ => true
      end
  | Base (OSet r args) =>
      match reg_obj s r, eval_operands (st_env s) args with
      | Some (id, _), Some xs => forallb (store_okb (st_heap s) id) xs
      | _, _ => true
      end
  | Base (SetTF r _ v) =>
      match nth_error (st_env s) r, eval_operand (st_env s) v with
      | Some root, Some x => tf_store_okb (st_heap s) root x
      | _, _ => true
      end
  | _ => true
  end.

Fixpoint run_okb (fadd fmul fdiv : Z -> Z -> Z) (of_int : Z -> Z) (s : state) (prog : list xop) : bool :=
  match prog with
  | [] => true
  | o :: t => xop_okb o && stores_okb s o && run_okb fadd fmul fdiv of_int (fst (xstep fadd fmul fdiv of_int s o)) t
  end.
