(* Utf8.v — utf8.DecodeRuneInString, utf8.AppendRune/WriteRune, unicode.IsSpace as arithmetic on byte values. *)
From Anytype Require Import Base.
Local Open Scope Z_scope.

Definition rune_error : Z := 65533.   (* U+FFFD *)
Definition is_cont (b : byte) : bool := (128 <=? bZ b) && (bZ b <=? 191).
Definition in_rng (lo hi : Z) (b : byte) : bool := (lo <=? bZ b) && (bZ b <=? hi).

(* (rune, size); (RuneError, 0) on empty input, (RuneError, 1) on every ill-formed prefix *)
Definition decode_rune (s : bytes) : Z * nat :=
  match s with
  | [] => (rune_error, O)
  | b0 :: t =>
      let z0 := bZ b0 in
      if z0 <? 128 then (z0, 1%nat)
      else if (194 <=? z0) && (z0 <=? 223) then
        match t with
        | b1 :: _ => if is_cont b1 then ((z0 - 192) * 64 + (bZ b1 - 128), 2%nat) else (rune_error, 1%nat)
        | _ => (rune_error, 1%nat)
        end
      else if (224 <=? z0) && (z0 <=? 239) then
        match t with
        | b1 :: b2 :: _ =>
            let lo := if z0 =? 224 then 160 else 128 in
            let hi := if z0 =? 237 then 159 else 191 in
            if in_rng lo hi b1 && is_cont b2
            then ((z0 - 224) * 4096 + (bZ b1 - 128) * 64 + (bZ b2 - 128), 3%nat) else (rune_error, 1%nat)
        | _ => (rune_error, 1%nat)
        end
      else if (240 <=? z0) && (z0 <=? 244) then
        match t with
        | b1 :: b2 :: b3 :: _ =>
            let lo := if z0 =? 240 then 144 else 128 in
            let hi := if z0 =? 244 then 143 else 191 in
            if in_rng lo hi b1 && is_cont b2 && is_cont b3
            then ((z0 - 240) * 262144 + (bZ b1 - 128) * 4096 + (bZ b2 - 128) * 64 + (bZ b3 - 128), 4%nat) else (rune_error, 1%nat)
        | _ => (rune_error, 1%nat)
        end
      else (rune_error, 1%nat)
  end.

Definition valid_rune (r : Z) : bool := ((0 <=? r) && (r <? 55296)) || ((57343 <? r) && (r <=? 1114111)).

(* utf8.AppendRune: an invalid rune is encoded as U+FFFD *)
Definition encode_rune (r : Z) : bytes :=
  let r := if valid_rune r then r else rune_error in
  if r <? 128 then [byte_of_Z r]
  else if r <? 2048 then [byte_of_Z (192 + r / 64); byte_of_Z (128 + r mod 64)]
  else if r <? 65536 then [byte_of_Z (224 + r / 4096); byte_of_Z (128 + (r / 64) mod 64); byte_of_Z (128 + r mod 64)]
  else [byte_of_Z (240 + r / 262144); byte_of_Z (128 + (r / 4096) mod 64); byte_of_Z (128 + (r / 64) mod 64); byte_of_Z (128 + r mod 64)].

(* the whole string is well-formed UTF-8 (utf8.ValidString) *)
Fixpoint utf8_valid_fuel (fuel : nat) (s : bytes) : bool :=
  match fuel with
  | O => match s with [] => true | _ => false end
  | S f => match s with
           | [] => true
           | _ => let '(r, n) := decode_rune s in
                  if (r =? rune_error) && Nat.eqb n 1 then false else utf8_valid_fuel f (skipn n s)
           end
  end.
Definition utf8_valid (s : bytes) : bool := utf8_valid_fuel (length s) s.

(* unicode.IsSpace *)
Definition is_space (r : Z) : bool :=
  ((9 <=? r) && (r <=? 13)) || (r =? 32) || (r =? 133) || (r =? 160) || (r =? 5760) ||
  ((8192 <=? r) && (r <=? 8202)) || (r =? 8232) || (r =? 8233) || (r =? 8239) || (r =? 8287) || (r =? 12288).
