(* RunJson.v — correspondence runner of the JSON engine (C01, C02, C03, C04, C16, C20).
   Float text conversion is instantiated by per-case tables produced by Go (strconv.FormatFloat / ParseFloat):
   a table cannot disagree with Go; the contract the theorems assume (F1 round trip, F2 shape) is validated on every entry. *)
From Anytype Require Import Base FloatBits Value GoInt Utf8 GoUnquote Json JsonDoc FormatModel RunCommon.
Local Open Scope Z_scope.

Record tables := mkT { t_fmt : list (Z * (bytes * bytes)); t_pf : list (bytes * option Z) }.

Fixpoint zlookup {A} (k : Z) (l : list (Z * A)) : option A :=
  match l with [] => None | (k', v) :: t => if k =? k' then Some v else zlookup k t end.
Definition tb_fmt_e (t : tables) (b : Z) : bytes := match zlookup b (t_fmt t) with Some (e, _) => e | None => B"<no-fmt-entry>" end.
Definition tb_fmt_f (t : tables) (b : Z) : bytes := match zlookup b (t_fmt t) with Some (_, f) => f | None => B"<no-fmt-entry>" end.
(* a token the harness did not anticipate yields a sentinel that equals nothing *)
(* strconv.ParseFloat only ever accepts characters of [0-9A-Za-z+-._] (decimal, hex floats, Inf/NaN, underscores):
   a token with any other character is not a float, and such tokens are not in the table *)
Definition is_tok_char (b : byte) : bool :=
  let z := bZ b in
  ((48 <=? z) && (z <=? 57)) || ((65 <=? z) && (z <=? 90)) || ((97 <=? z) && (z <=? 122)) ||
  (z =? 43) || (z =? 45) || (z =? 46) || (z =? 95).
Definition tb_pfloat (t : tables) (tok : bytes) : option Z :=
  if forallb is_tok_char tok then match alookup tok (t_pf t) with Some r => r | None => Some (-1) end else None.

Definition m_ser (t : tables) := ser (tb_fmt_e t) (tb_fmt_f t).
Definition m_ser_float (t : tables) := ser_float (tb_fmt_e t) (tb_fmt_f t).
Definition m_parse_list (t : tables) := parse_list_top (tb_pfloat t).
Definition m_parse_object (t : tables) := parse_object_top (tb_pfloat t).
Definition m_doc_of (t : tables) := doc_of (m_ser t).

(* ---------- order-insensitive comparisons (Go's map iteration order is never an observable) ---------- *)
Definition fbits_same (x y : Z) : bool := (is_nan x && is_nan y) || (x =? y).
Fixpoint val_perm_eqb (a b : val) : bool :=
  match a, b with
  | VNil, VNil => true
  | VBool x, VBool y => Bool.eqb x y
  | VInt x, VInt y => x =? y
  | VFloat x, VFloat y => fbits_same x y
  | VStr x, VStr y => bytes_eqb x y
  | VList xs, VList ys =>
      (fix go (xs ys : list val) : bool :=
         match xs, ys with [], [] => true | x :: xs', y :: ys' => val_perm_eqb x y && go xs' ys' | _, _ => false end) xs ys
  | VObj xs, VObj ys =>
      Nat.eqb (length xs) (length ys) &&
      (fix go (xs : list (bytes * val)) : bool :=
         match xs with
         | [] => true
         | (k, v) :: t => match alookup k ys with Some w => val_perm_eqb v w | None => false end && go t
         end) xs
  | _, _ => false
  end.

Definition hexd_eqb (a b : hexd) : bool := (hv a =? hv b) && Bool.eqb (hupper a) (hupper b).
Definition hex4_eqb (a b : hex4) : bool :=
  let '(a1, a2, a3, a4) := a in let '(b1, b2, b3, b4) := b in hexd_eqb a1 b1 && hexd_eqb a2 b2 && hexd_eqb a3 b3 && hexd_eqb a4 b4.
Definition sitem_eqb (a b : sitem) : bool := bytes_eqb (render_sitem a) (render_sitem b).
Definition sitems_eqb (a b : list sitem) : bool := bytes_eqb (flat_map render_sitem a) (flat_map render_sitem b).

(* same tokens, same nesting, same array order, object members as a multiset; whitespace ignored *)
Fixpoint doc_perm_eqb (a b : doc) : bool :=
  match a, b with
  | DNull, DNull | DTrue, DTrue | DFalse, DFalse => true
  | DNum x, DNum y => bytes_eqb (render_num x) (render_num y)
  | DStr x, DStr y => sitems_eqb x y
  | DArr _ xs, DArr _ ys =>
      (fix go (xs ys : list (ws * doc * ws)) : bool :=
         match xs, ys with
         | [], [] => true
         | (_, x, _) :: xs', (_, y, _) :: ys' => doc_perm_eqb x y && go xs' ys'
         | _, _ => false
         end) xs ys
  | DObj _ xs, DObj _ ys =>
      Nat.eqb (length xs) (length ys) &&
      (fix go (xs : list (ws * list sitem * ws * ws * doc * ws)) : bool :=
         match xs with
         | [] => true
         | (_, k, _, _, x, _) :: t =>
             existsb (fun m => let '(_, k', _, _, y, _) := m in sitems_eqb k k' && doc_perm_eqb x y) ys && go t
         end) xs
  | _, _ => false
  end.

(* structural equality including layout *)
Definition doc_same_text (a b : doc) : bool := bytes_eqb (render a) (render b).

(* ---------- observations reported by the harness ---------- *)
Inductive jres :=
| JOk (v : val)
| JErrUtf8 | JErrEnd | JErrMissing
| JErrChar (got : Z) (line : Z)       (* expecting ..., got '<rune>' on line N *)
| JErrValue (tok : bytes) (line : Z)  (* invalid value '<tok>' on line N *)
| JErrOther.

Definition jres_of (p : pres) : jres :=
  match p with
  | POk v _ _ => JOk v
  | PErr EUtf8 _ => JErrUtf8
  | PErr EEnd _ => JErrEnd
  | PErr EMissing _ => JErrMissing
  | PErr (EChar _ got line) _ => JErrChar got line
  | PErr (EValue tok line) _ => JErrValue tok line
  | PErr EFile _ => JErrOther
  | PFuel => JErrOther
  end.
Definition jres_eqb (a b : jres) : bool :=
  match a, b with
  | JOk x, JOk y => val_perm_eqb x y
  | JErrUtf8, JErrUtf8 | JErrEnd, JErrEnd | JErrMissing, JErrMissing => true
  | JErrChar g l, JErrChar g' l' => (g =? g') && (l =? l')
  | JErrValue t l, JErrValue t' l' => bytes_eqb t t' && (l =? l')
  | _, _ => false
  end.

(* ---------- the oracle contract, validated on every table entry of every case ---------- *)
(* F2: both texts have the shape of a JSON number when the value is finite; F1: they parse back to the same float64;
   F3: the literals true/false are not floats; F5: the 'e' format contains an 'e' or a '.' (from which the theorems derive that the
   text is never an integer literal - checked here directly as well) *)
Definition contract_ok (t : tables) : bool :=
  forallb (fun e => let b := fst e in
                    if is_finite b && fbits_ok b then
                      match parse_num_text (m_ser_float t b) with Some _ => true | None => false end &&
                      option_eqb Z.eqb (tb_pfloat t (m_ser_float t b)) (Some b) &&
                      match pint0 (m_ser_float t b) with None => true | Some _ => false end &&
                      (contains_byte x65 (tb_fmt_e t b) || contains_byte x2e (tb_fmt_e t b))      (* F5 *)
                    else true) (t_fmt t) &&
  match tb_pfloat t (B"true"), tb_pfloat t (B"false") with None, None => true | _, _ => false end.

(* ---------- FormatString ---------- *)
Definition all_finite (v : val) : bool :=
  (fix go (v : val) : bool :=
     match v with
     | VFloat b => is_finite b
     | VList l => forallb go l
     | VObj kvs => forallb (fun kv => go (snd kv)) kvs
     | _ => true
     end) v.

(* what FormatString(n) must be: for 0 <= n <= 10 the canonical re-layout of String(); panic otherwise *)
Definition format_check (t : tables) (v : val) (n : Z) (obs : res bytes) : bool :=
  match format_string (tb_fmt_e t) (tb_fmt_f t) v n, obs with
  | Panic, Panic => true
  | Panic, Ok _ | Ok _, Panic => false
  | Ok _, Ok fs =>
           if all_finite v then
             match ref_parse fs with
             | Some ([], d, []) =>
                 doc_same_text (relayout (Z.to_nat n) 0 d) d &&          (* it IS the canonical layout *)
                 doc_perm_eqb d (m_doc_of t v) &&                         (* of exactly the tokens String() writes *)
                 bytes_eqb (indent_text (Z.to_nat n) fs) fs &&            (* re-indenting reproduces it byte for byte *)
                 negb (match fs with [] => true | _ => false end)
             | _ => false
             end
           else match fs with [] => true | _ => false end                   (* NaN / Inf: String() is not JSON, json.Indent fails *)
  end.

(* ---------- cases ---------- *)
Inductive jcase :=
(* a container tree (object members in any order), what String() returned, what parsing that string returned,
   FormatString results *)
| JTree (is_obj : bool) (v : val) (s : bytes) (parsed : jres) (fmts : list (Z * res bytes))
(* an arbitrary text given to ParseList / ParseObject, whether encoding/json calls it valid *)
| JText (is_obj : bool) (s : bytes) (parsed : jres) (go_valid : bool) (check_valid : bool).

Definition m_parse (t : tables) (is_obj : bool) (s : bytes) : jres :=
  jres_of (if is_obj then m_parse_object t s else m_parse_list t s).

Definition json_check (c : tables * jcase) : bool :=
  let '(t, jc) := c in
  contract_ok t &&
  match jc with
  | JTree is_obj v s parsed fmts =>
      (* String(): valid JSON by the reference decoder, same tokens as the model's serialisation up to member order *)
      (if all_finite v
       then match ref_parse s with
            | Some ([], d, []) => doc_perm_eqb d (m_doc_of t v) && doc_perm_eqb (m_doc_of t v) d
            | _ => false
            end
       else true) &&
      (* without objects the bytes must be identical *)
      jres_eqb (m_parse t is_obj s) parsed &&
      forallb (fun f => format_check t v (fst f) (snd f)) fmts
  | JText is_obj s parsed go_valid check_valid =>
      jres_eqb (m_parse t is_obj s) parsed &&
      (if check_valid then Bool.eqb (json_valid s) go_valid else true)
  end.

Definition json_show (c : tables * jcase) :=
  let '(t, jc) := c in
  match jc with
  | JTree is_obj v s parsed fmts => (contract_ok t, m_ser t v, m_parse t is_obj s, ref_parse s)
  | JText is_obj s parsed go_valid check_valid => (contract_ok t, [], m_parse t is_obj s, ref_parse s)
  end.
