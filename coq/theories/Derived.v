(* Derived.v — identity of derived structures (C19): a user type embeds a List/Object and registers itself with Init(ptr);
   every method is promoted from the embedded *list / *object, so inside a method `ego` is the innermost value and
   `ego.Ego()` (= ego.ptr) is the registered outer one. What a method hands back is decided by its return expressions, which
   are extracted from the source on every run (Generated/GenFluent.v). *)
From Anytype Require Import Base.

Inductive ret_class :=
| REgo                  (* return ego.Ego() *)
| RChain (m : bytes)    (* return ego.Ego().m(...) : whatever m returns when called on the registered value *)
| RRaw                  (* return ego : the embedded value, losing the derived type *)
| ROther                (* a new container, a local, a plain value: not the receiver *)
| RUnknown.             (* an expression the translator cannot classify (a call it cannot resolve) *)

Definition method_table := list (bytes * bytes * list ret_class).      (* name, result type, classes of its return statements *)

Fixpoint find_method (name : bytes) (t : method_table) : option (bytes * list ret_class) :=
  match t with
  | [] => None
  | (n, res, rets) :: r => if bytes_eqb n name then Some (res, rets) else find_method name r
  end.

(* every return statement yields the registered value, directly or through a chain of such methods *)
Fixpoint fluent_ok (fuel : nat) (t : method_table) (name : bytes) : bool :=
  match fuel with
  | O => false
  | S f => match find_method name t with
           | None => false
           | Some (_, rets) =>
               match rets with [] => false | _ => forallb (fun r => match r with REgo => true | RChain m => fluent_ok f t m | _ => false end) rets end
           end
  end.

(* semantics: an interface value is (cell, embedding level); level 0 is the embedded value itself *)
Definition iface := (nat * nat)%type.
Section Sem.
  Variable t : method_table.
  Variable ptr : nat -> nat.          (* the level registered by Init for each cell *)
  (* the values the method may return when called on ANY embedding level of cell c (one per return statement); None = not a receiver *)
  Fixpoint ret_values (fuel : nat) (c : nat) (name : bytes) : list (option iface) :=
    match fuel with
    | O => [None]
    | S f => match find_method name t with
             | None => [None]
             | Some (_, rets) =>
                 flat_map (fun r => match r with
                                    | REgo => [Some (c, ptr c)]
                                    | RChain m => ret_values f c m      (* called on ego.Ego(): the same cell *)
                                    | RRaw => [Some (c, O)]
                                    | ROther | RUnknown => [None]
                                    end) rets
             end
    end.

  Theorem fluent_returns_registered : forall fuel c name, fluent_ok fuel t name = true ->
    Forall (fun r => r = Some (c, ptr c)) (ret_values fuel c name) /\ ret_values fuel c name <> [].
  Proof. induction fuel as [|f IH]; intros c name H; [discriminate|]. simpl in *.
    destruct (find_method name t) as [[res rets]|]; [|discriminate].
    destruct rets as [|r0 rs]; [discriminate|].
    remember (r0 :: rs) as rets eqn:E. assert (NE: rets <> []) by (subst; discriminate). clear E.
    split.
    - apply Forall_forall. intros x Hx. apply in_flat_map in Hx as [r [Hr Hx]].
      rewrite forallb_forall in H. specialize (H r Hr). destruct r; try discriminate.
      + destruct Hx as [<-|[]]. reflexivity.
      + destruct (IH c m H) as [F _]. rewrite Forall_forall in F. apply F. exact Hx.
    - destruct rets as [|r rs']; [congruence|]. rewrite forallb_forall in H. specialize (H r (or_introl eq_refl)).
      cbn [flat_map]. intros E. apply app_eq_nil in E as [E _].
      destruct r; try discriminate.
      destruct (IH c m H) as [_ N]. contradiction. Qed.
End Sem.

(* the methods the property names as returning the updated / unchanged container *)
Definition fluent_list_names : list bytes :=
  [B"Add"; B"Insert"; B"Replace"; B"Delete"; B"Pop"; B"Clear"; B"Sort"; B"Reverse";
   B"ForEach"; B"ForEachValue"; B"ForEachObject"; B"ForEachList"; B"ForEachString"; B"ForEachBool"; B"ForEachInt"; B"ForEachFloat";
   B"ForEachAsync"; B"SetTF"; B"UnsetTF"; B"Ego"; B"getVal"].
Definition fluent_object_names : list bytes :=
  [B"Set"; B"Unset"; B"Clear";
   B"ForEach"; B"ForEachValue"; B"ForEachObject"; B"ForEachList"; B"ForEachString"; B"ForEachBool"; B"ForEachInt"; B"ForEachFloat";
   B"ForEachAsync"; B"SetTF"; B"UnsetTF"; B"Ego"; B"getVal"].
(* interface methods whose result type is the interface itself but which produce a NEW container (or hand out a stored one) *)
Definition deriving_list_names : list bytes :=
  [B"Clone"; B"Concat"; B"SubList"; B"Map"; B"MapValues"; B"MapObjects"; B"MapLists"; B"MapStrings"; B"MapBools"; B"MapInts"; B"MapFloats"; B"MapAsync";
   B"Filter"; B"FilterObjects"; B"FilterLists"; B"FilterStrings"; B"FilterInts"; B"FilterFloats"; B"GetList"].
Definition deriving_object_names : list bytes :=
  [B"Clone"; B"Merge"; B"Pluck"; B"Map"; B"MapValues"; B"MapObjects"; B"MapLists"; B"MapStrings"; B"MapBools"; B"MapInts"; B"MapFloats"; B"MapAsync"; B"GetObject"].

(* every interface method returning the interface type is classified (a new method lands in neither list and fails this) *)
Definition classified (iface_methods : list (bytes * bytes)) (self : bytes) (fluent deriving : list bytes) : bool :=
  forallb (fun m => if bytes_eqb (snd m) self
                    then existsb (bytes_eqb (fst m)) fluent || existsb (bytes_eqb (fst m)) deriving
                    else true) iface_methods.

(* does the translator know what every return statement of the method (and of the methods it chains to) hands back? *)
Fixpoint readable (fuel : nat) (t : method_table) (name : bytes) : bool :=
  match fuel with
  | O => false
  | S f => match find_method name t with
           | None => false
           | Some (_, rets) => forallb (fun r => match r with RUnknown => false | RChain m => readable f t m | _ => true end) rets
           end
  end.
