(* RunHeap.v — correspondence runner of the heap engine (C05, C06, C08, C09, C10, C11): the model's trace of a program
   against the trace the implementation produced. Container ids are never compared (identity is covered by the canonical hash,
   because every returned container becomes a variable). *)
From Anytype Require Import Base FloatBits Value Heap HeapExt FloatExec RunCommon.
Local Open Scope Z_scope.

Definition hval_obs_eqb (a b : hval) : bool :=
  match a, b with
  | HL _, HL _ => true
  | HO _, HO _ => true
  | HFloat x, HFloat y => (is_nan x && is_nan y) || (x =? y)
  | _, _ => hval_eqb a b
  end.

Definition out_eqb (a b : out) : bool :=
  match a, b with
  | ONone, ONone => true
  | OV x, OV y => hval_obs_eqb x y
  | OZ x, OZ y => x =? y
  | OB x, OB y => Bool.eqb x y
  | OKind x, OKind y => kind_eqb x y
  | OVs x, OVs y => list_eqb hval_obs_eqb x y
  | OKVs x, OKVs y => list_eqb (fun p q => bytes_eqb (fst p) (fst q) && hval_obs_eqb (snd p) (snd q)) x y
  | _, _ => false
  end.
Definition outcome_eqb (a b : outcome) : bool :=
  match a, b with Ret x, Ret y => out_eqb x y | Pan, Pan => true | _, _ => false end.

(* index of the first step at which two traces differ (for replay files: the program can be cut after that step) *)
Fixpoint first_diff {A B : Type} (eqb : A -> B -> bool) (a : list A) (b : list B) (i : nat) : option nat :=
  match a, b with
  | [], [] => None
  | x :: a', y :: b' => if eqb x y then first_diff eqb a' b' (S i) else Some i
  | _, _ => Some i
  end.

(* programs are extended programs (HeapExt.v): [Base o] for the operations of Heap.v, plus the rest of the API; the float
   arithmetic of the aggregates is executed through Coq's primitive IEEE floats (FloatExec.v) *)
Definition xout_eqb (a b : xout) : bool :=
  match a, b with
  | XO x, XO y => out_eqb x y
  | XBag x, XBag y => perm_eqb hval_obs_eqb x y
  | XIdx x, XIdx y => list_eqb (fun p q => (fst p =? fst q) && hval_obs_eqb (snd p) (snd q)) x y
  | XTree x, XTree y => val_eqb x y
  | _, _ => false
  end.
Definition xoutcome_eqb (a b : xoutcome) : bool :=
  match a, b with XRet x, XRet y => xout_eqb x y | XPan, XPan => true | _, _ => false end.
Definition step_eqb (a b : xoutcome * Z) : bool := xoutcome_eqb (fst a) (fst b) && (snd a =? snd b).

Definition heap_model (prog : list xop) : list (xoutcome * Z) := xrun x_fadd x_fmul x_fdiv x_of_int init_state prog.
Definition heap_show (c : list xop * list (xoutcome * Z)) :=
  let '(prog, expected) := c in
  (first_diff step_eqb (heap_model prog) expected 0%nat, heap_model prog).
(* [run_okb]: the program text mentions containers only through variables, and no step stores a container into something reachable
   from it - the hypotheses of the reachable-state theorems (Reachable.reachable_wf, Acyclic.reachable_acyclic: every reachable
   state is well-formed and acyclic), checked on every program that is executed *)
Definition heap_check (c : list xop * list (xoutcome * Z)) : bool :=
  let '(prog, expected) := c in
  run_okb x_fadd x_fmul x_fdiv x_of_int init_state prog && list_eqb step_eqb (heap_model prog) expected.

(* ---------- slice-level programs (Slice.v), run with two growth policies; both must agree with the implementation ---------- *)
From Anytype Require Import Slice.
Fixpoint slice_trace (grow : nat -> nat -> nat) (c : cstate) (prog : list cop) : list (outcome * list (list hval)) :=
  match prog with
  | [] => []
  | o :: t => let '(c1, oc) := cstep grow c o in (oc, abs c1) :: slice_trace grow c1 t
  end.
Definition slice_obs_eqb (a b : outcome * list (list hval)) : bool :=
  outcome_eqb (fst a) (fst b) && list_eqb (list_eqb hval_obs_eqb) (snd a) (snd b).
Definition slice_check (c : list cop * list (outcome * list (list hval))) : bool :=
  let '(prog, expected) := c in
  list_eqb slice_obs_eqb (slice_trace exact_fit empty_c prog) expected &&
  list_eqb slice_obs_eqb (slice_trace doubling empty_c prog) expected.

(* C05 and C09 run both kinds of cases *)
Definition heap_or_slice_check (c : (list xop * list (xoutcome * Z)) + (list cop * list (outcome * list (list hval)))) : bool :=
  match c with inl hc => heap_check hc | inr sc => slice_check sc end.
Definition heap_or_slice_show (c : (list xop * list (xoutcome * Z)) + (list cop * list (outcome * list (list hval)))) :=
  match c with
  | inl hc => inl (heap_show hc)
  | inr sc => let '(prog, expected) := sc in
              inr (first_diff slice_obs_eqb (slice_trace exact_fit empty_c prog) expected 0%nat,
                   first_diff slice_obs_eqb (slice_trace doubling empty_c prog) expected 0%nat,
                   slice_trace exact_fit empty_c prog)
  end.
Definition heap_or_slice_model (c : (list xop * list (xoutcome * Z)) + (list cop * list (outcome * list (list hval)))) :=
  match c with
  | inl hc => inl (heap_model (fst hc))
  | inr sc => inr (slice_trace exact_fit empty_c (fst sc), slice_trace doubling empty_c (fst sc))
  end.
