(* Native.v — Go dynamic values as the library sees them (parseVal's type switch, NewListFrom / NewObjectFrom) and the
   recursive export (native, NativeSlice, NativeDict, Slice, Dict). C12 and C13. *)
From Anytype Require Import Base FloatBits Value.
Local Open Scope Z_scope.

(* integer flavours *)
Inductive intw := WInt | WInt8 | WInt16 | WInt32 | WInt64 | WUint | WUint8 | WUint16 | WUint32 | WUint64.
Definition intw_range (w : intw) : Z * Z :=
  match w with
  | WInt | WInt64 => (- two63, two63 - 1)
  | WInt8 => (-128, 127) | WInt16 => (-32768, 32767) | WInt32 => (-2147483648, 2147483647)
  | WUint | WUint64 => (0, two64 - 1)
  | WUint8 => (0, 255) | WUint16 => (0, 65535) | WUint32 => (0, 4294967295)
  end.
Definition intw_ok (w : intw) (z : Z) : bool := (fst (intw_range w) <=? z) && (z <=? snd (intw_range w)).

(* float32 -> float64 on bit patterns (exact: every float32 is a float64) *)
Definition two23 : Z := 8388608.
Definition f32_to_f64 (b : Z) : Z :=
  let s := b / 2147483648 in
  let e := (b / two23) mod 256 in
  let m := b mod two23 in
  let sign := s * two63 in
  if e =? 255 then sign + 2047 * two52 + (if m =? 0 then 0 else Z.lor (m * 536870912) 2251799813685248)   (* Inf / quieted NaN *)
  else if e =? 0 then
    (if m =? 0 then sign
     else (* subnormal float32: m * 2^-149, normalise *)
       let l := Z.log2 m in
       sign + (l - 149 + 1023) * two52 + (m * 2 ^ (52 - l) - two52))
  else sign + (e - 127 + 1023) * two52 + m * 536870912.

(* Go values reaching parseVal. Containers that already are Objects / Lists are given by their content (a value tree). *)
Inductive gov : Type :=
| GNil
| GBool (b : bool)
| GStr (s : bytes)
| GIntW (w : intw) (z : Z)
| GF64 (bits : Z)
| GF32 (bits32 : Z)
| GObjC (content : list (bytes * val))        (* an Object *)
| GListC (content : list val)                 (* a List *)
| GSliceAny (l : list gov)
| GSliceObj (l : list (option (list (bytes * val))))   (* []Object; None = a nil entry *)
| GSliceList (l : list (option (list val)))
| GSliceStr (l : list bytes)
| GSliceBool (l : list bool)
| GSliceInt (l : list Z)
| GSliceF64 (l : list Z)
| GMapAny (kvs : list (bytes * gov))
| GMapObj (kvs : list (bytes * option (list (bytes * val))))
| GMapList (kvs : list (bytes * option (list val)))
| GMapStr (kvs : list (bytes * bytes))
| GMapBool (kvs : list (bytes * bool))
| GMapInt (kvs : list (bytes * Z))
| GMapF64 (kvs : list (bytes * Z))
| GOther.                                     (* any other dynamic type: arrays, structs, channels, []int8, map[int]any, pointers ... *)

(* a nil Object / List entry of a typed slice or map reaches parseVal as a nil interface and is stored as nil *)
Definition oobj (o : option (list (bytes * val))) : val := match o with Some c => VObj c | None => VNil end.
Definition olist (o : option (list val)) : val := match o with Some c => VList c | None => VNil end.

(* parseVal: the stored field, as a value tree; Panic = "incompatible type" *)
Fixpoint norm (g : gov) : res val :=
  match g with
  | GNil => Ok VNil
  | GBool b => Ok (VBool b)
  | GStr s => Ok (VStr s)
  | GIntW w z => Ok (VInt (match w with WUint | WUint64 => wrap64 z | _ => z end))     (* newInt(int(v)) *)
  | GF64 b => Ok (VFloat b)
  | GF32 b => Ok (VFloat (f32_to_f64 b))
  | GObjC c => Ok (VObj c)
  | GListC c => Ok (VList c)
  | GSliceAny l =>
      match (fix go (l : list gov) : res (list val) :=
               match l with
               | [] => Ok []
               | x :: t => match norm x with Panic => Panic | Ok v => match go t with Ok vs => Ok (v :: vs) | Panic => Panic end end
               end) l with
      | Ok vs => Ok (VList vs) | Panic => Panic
      end
  | GSliceObj l => Ok (VList (map oobj l))
  | GSliceList l => Ok (VList (map olist l))
  | GSliceStr l => Ok (VList (map VStr l))
  | GSliceBool l => Ok (VList (map VBool l))
  | GSliceInt l => Ok (VList (map VInt l))
  | GSliceF64 l => Ok (VList (map VFloat l))
  | GMapAny kvs =>
      match (fix go (l : list (bytes * gov)) : res (list (bytes * val)) :=
               match l with
               | [] => Ok []
               | (k, x) :: t => match norm x with Panic => Panic | Ok v => match go t with Ok vs => Ok ((k, v) :: vs) | Panic => Panic end end
               end) kvs with
      | Ok vs => Ok (VObj vs) | Panic => Panic
      end
  | GMapObj kvs => Ok (VObj (map (fun kv => (fst kv, oobj (snd kv))) kvs))
  | GMapList kvs => Ok (VObj (map (fun kv => (fst kv, olist (snd kv))) kvs))
  | GMapStr kvs => Ok (VObj (map (fun kv => (fst kv, VStr (snd kv))) kvs))
  | GMapBool kvs => Ok (VObj (map (fun kv => (fst kv, VBool (snd kv))) kvs))
  | GMapInt kvs => Ok (VObj (map (fun kv => (fst kv, VInt (snd kv))) kvs))
  | GMapF64 kvs => Ok (VObj (map (fun kv => (fst kv, VFloat (snd kv))) kvs))
  | GOther => Panic
  end.

(* NewListFrom / NewObjectFrom accept only the slice / map flavours *)
Definition new_list_from (g : gov) : res val :=
  match g with
  | GSliceAny _ | GSliceObj _ | GSliceList _ | GSliceStr _ | GSliceBool _ | GSliceInt _ | GSliceF64 _ => norm g
  | _ => Panic
  end.
Definition new_object_from (g : gov) : res val :=
  match g with
  | GMapAny _ | GMapObj _ | GMapList _ | GMapStr _ | GMapBool _ | GMapInt _ | GMapF64 _ => norm g
  | _ => Panic
  end.

(* ---------- export: native(value) ---------- *)
Fixpoint native (v : val) : gov :=
  match v with
  | VNil => GNil | VBool b => GBool b | VInt z => GIntW WInt z | VFloat b => GF64 b | VStr s => GStr s
  | VList l => GSliceAny (map native l)
  | VObj kvs => GMapAny (map (fun kv => (fst kv, native (snd kv))) kvs)
  end.
(* one-level snapshots: Slice() / Dict() hold exactly what Get returns *)
Definition shallow (v : val) : gov :=
  match v with
  | VNil => GNil | VBool b => GBool b | VInt z => GIntW WInt z | VFloat b => GF64 b | VStr s => GStr s
  | VList l => GListC l | VObj kvs => GObjC kvs
  end.
Definition slice_snapshot (l : list val) : list gov := map shallow l.
Definition dict_snapshot (kvs : list (bytes * val)) : list (bytes * gov) := map (fun kv => (fst kv, shallow (snd kv))) kvs.

(* plain Go data: no anytype container at any depth *)
Fixpoint is_native (g : gov) : bool :=
  match g with
  | GObjC _ | GListC _ | GSliceObj _ | GSliceList _ | GMapObj _ | GMapList _ | GOther => false
  | GSliceAny l => forallb is_native l
  | GMapAny kvs => forallb (fun kv => is_native (snd kv)) kvs
  | _ => true
  end.
(* canonical native trees: map[string]any / []any / nil, bool, string, int, float64 *)
Fixpoint canonical_native (g : gov) : bool :=
  match g with
  | GNil | GBool _ | GStr _ | GF64 _ => true
  | GIntW WInt z => in_int64 z
  | GSliceAny l => forallb canonical_native l
  | GMapAny kvs => forallb (fun kv => canonical_native (snd kv)) kvs
  | _ => false
  end.

(* ---------- the case table of parseVal's type switch, as the model assumes it (compared with the table extracted from the
   source on every run: Generated/GenParseVal.v) ---------- *)
Definition parseval_cases_modelled : list (bytes * bytes) :=
  [ (B"Object", B"return v");
    (B"map[string]any", B"return NewObjectFrom(v)"); (B"map[string]Object", B"return NewObjectFrom(v)"); (B"map[string]List", B"return NewObjectFrom(v)");
    (B"map[string]string", B"return NewObjectFrom(v)"); (B"map[string]bool", B"return NewObjectFrom(v)"); (B"map[string]int", B"return NewObjectFrom(v)");
    (B"map[string]float64", B"return NewObjectFrom(v)");
    (B"List", B"return v");
    (B"[]any", B"return NewListFrom(v)"); (B"[]Object", B"return NewListFrom(v)"); (B"[]List", B"return NewListFrom(v)"); (B"[]string", B"return NewListFrom(v)");
    (B"[]bool", B"return NewListFrom(v)"); (B"[]int", B"return NewListFrom(v)"); (B"[]float64", B"return NewListFrom(v)");
    (B"string", B"return newString(v)"); (B"bool", B"return newBool(v)"); (B"int", B"return newInt(v)");
    (B"int64", B"return newInt(int(v))"); (B"int32", B"return newInt(int(v))"); (B"int16", B"return newInt(int(v))"); (B"int8", B"return newInt(int(v))");
    (B"uint", B"return newInt(int(v))"); (B"uint64", B"return newInt(int(v))"); (B"uint32", B"return newInt(int(v))"); (B"uint16", B"return newInt(int(v))");
    (B"uint8", B"return newInt(int(v))");
    (B"float64", B"return newFloat(v)"); (B"float32", B"return newFloat(float64(v))");
    (B"nil", B"return newNil()");
    (B"default", B"panic") ].
(* same set of (type, action) pairs; the order of the cases does not matter (Go type switches on distinct types are order-insensitive) *)
Definition case_eqb (a b : bytes * bytes) : bool := bytes_eqb (fst a) (fst b) && bytes_eqb (snd a) (snd b).
Definition tables_equiv (a b : list (bytes * bytes)) : bool :=
  forallb (fun x => existsb (case_eqb x) b) a && forallb (fun x => existsb (case_eqb x) a) b && Nat.eqb (length a) (length b).
