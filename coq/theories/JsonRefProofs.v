(* JsonRefProofs.v — the reference decoder of JsonDoc.v DECIDES the grammar:
   ref_value returns exactly the derivation a text was rendered from (ref_complete), accepts only rendered texts
   (ref_sound), and json_valid s <-> s is the rendering of a well-formed derivation (json_valid_iff). *)
From Anytype Require Import Base FloatBits Value Utf8 Utf8Proofs GoUnquote JsonDoc.
From Coq Require Import ZifyBool.
Local Open Scope Z_scope.
Ltac Zify.zify_post_hook ::= Z.div_mod_to_equations.
Arguments ref_value : simpl never.  Arguments ref_string : simpl never.

(* ---------- byte tests: concrete ones by computation, symbolic ones through bZ and lia ---------- *)
Lemma byte_eqb_bZ : forall a b, byte_eqb a b = (bZ a =? bZ b).
Proof. intros a b. destruct (byte_eqb a b) eqn:E.
  - apply byte_eqb_eq in E. subst. symmetry. apply Z.eqb_refl.
  - apply byte_eqb_neq in E. symmetry. apply Z.eqb_neq. intros H. apply E. apply bZ_inj. exact H. Qed.

(* evaluate byte_eqb between two literal bytes *)
Ltac beq_eval := repeat match goal with
  | |- context [byte_eqb ?a ?b] => is_constructor a; is_constructor b;
      let v := eval vm_compute in (byte_eqb a b) in change (byte_eqb a b) with v end.
Ltac bz_eval := repeat match goal with
  | |- context [bZ ?k] => is_constructor k; let v := eval vm_compute in (bZ k) in change (bZ k) with v end.
Ltac bz_eval_in H := repeat match type of H with
  | context [bZ ?k] => is_constructor k; let v := eval vm_compute in (bZ k) in change (bZ k) with v in H end.
(* goal: byte_eqb a b = false (or true) from arithmetic facts on bZ *)
Ltac bdec := rewrite byte_eqb_bZ; bz_eval; lia.
Ltac bf a b := replace (byte_eqb a b) with false by (symmetry; bdec).
Ltac bt a b := replace (byte_eqb a b) with true by (symmetry; bdec).
(* turn a hypothesis byte_eqb c K = true into c = K and substitute *)
Ltac beq_subst E := apply byte_eqb_eq in E; subst.
Ltac beq_subst1 E := apply byte_eqb_eq in E; match type of E with ?c = _ => subst c end.

(* ---------- whitespace ---------- *)
Definition is_blank (c : byte) : bool := byte_eqb c x20 || byte_eqb c x09 || byte_eqb c x0a || byte_eqb c x0d.
Definition head_nonblank (s : bytes) : Prop := match s with [] => True | c :: _ => is_blank c = false end.

Lemma is_blank_bZ : forall c, is_blank c = ((bZ c =? 32) || (bZ c =? 9) || (bZ c =? 10) || (bZ c =? 13)).
Proof. intros c. unfold is_blank. rewrite !byte_eqb_bZ. reflexivity. Qed.

Lemma take_ws_nonblank : forall s, head_nonblank s -> take_ws s = ([], s).
Proof. intros [|c t] H; [reflexivity|]. cbn [head_nonblank] in H. rewrite is_blank_bZ in H.
  cbn [take_ws]. bf c x20. bf c x09. bf c x0a. bf c x0d. reflexivity. Qed.

Lemma take_ws_render : forall w rest, head_nonblank rest -> take_ws (render_ws w ++ rest) = (w, rest).
Proof. induction w as [|a w IH]; intros rest H.
  - cbn [render_ws map app]. apply take_ws_nonblank. exact H.
  - unfold render_ws in *. cbn [map app]. cbn [take_ws]. destruct a; cbn [wsc_byte]; beq_eval; cbv iota; rewrite (IH rest H); reflexivity. Qed.

Lemma take_ws_sound : forall s w r, take_ws s = (w, r) -> s = render_ws w ++ r /\ head_nonblank r.
Proof. induction s as [|c t IH]; intros w r H.
  - cbn [take_ws] in H. injection H as <- <-. split; [reflexivity | exact I].
  - cbn [take_ws] in H.
    destruct (byte_eqb c x20) eqn:E1; [|destruct (byte_eqb c x09) eqn:E2; [|destruct (byte_eqb c x0a) eqn:E3; [|destruct (byte_eqb c x0d) eqn:E4]]].
    1-4: destruct (take_ws t) as [w' r'] eqn:T; injection H as <- <-; destruct (IH w' r' eq_refl) as [IH1 IH2];
         split; [|exact IH2]; rewrite IH1.
    + beq_subst E1. reflexivity.
    + beq_subst E2. reflexivity.
    + beq_subst E3. reflexivity.
    + beq_subst E4. reflexivity.
    + injection H as <- <-. split; [reflexivity|]. cbn [head_nonblank]. unfold is_blank. rewrite E1, E2, E3, E4. reflexivity. Qed.

(* ---------- hex digits ---------- *)
(* the case flag of a decimal digit is an unused slot: canonical = false *)
Definition hexd_canon (h : hexd) : bool := negb (hupper h) || (10 <=? hv h).
Definition hex4_canon (h : hex4) : bool := let '(a, b, c, d) := h in hexd_canon a && hexd_canon b && hexd_canon c && hexd_canon d.

Lemma hexd_of_byte_byte : forall h, hexd_ok h = true -> hexd_canon h = true -> hexd_of_byte (hexd_byte h) = Some h.
Proof. intros [v u] Hok Hc. unfold hexd_ok, hexd_canon in *. cbn [hv hupper] in *.
  unfold hexd_byte, hexd_of_byte. cbn [hv hupper]. cbv zeta.
  destruct (v <? 10) eqn:E1.
  - rewrite bZ_byte_of_Z by lia. replace ((48 <=? 48 + v) && (48 + v <=? 57)) with true by lia.
    destruct u; [lia|]. f_equal. f_equal. lia.
  - destruct u.
    + rewrite bZ_byte_of_Z by lia. replace ((48 <=? 55 + v) && (55 + v <=? 57)) with false by lia.
      replace ((97 <=? 55 + v) && (55 + v <=? 102)) with false by lia.
      replace ((65 <=? 55 + v) && (55 + v <=? 70)) with true by lia. f_equal. f_equal. lia.
    + rewrite bZ_byte_of_Z by lia. replace ((48 <=? 87 + v) && (87 + v <=? 57)) with false by lia.
      replace ((97 <=? 87 + v) && (87 + v <=? 102)) with true by lia. f_equal. f_equal. lia. Qed.

Lemma hexd_of_byte_sound : forall b h, hexd_of_byte b = Some h -> hexd_byte h = b /\ hexd_ok h = true /\ hexd_canon h = true.
Proof. intros b h H. unfold hexd_of_byte in H. cbv zeta in H. pose proof (bZ_range b) as R.
  destruct ((48 <=? bZ b) && (bZ b <=? 57)) eqn:E1; [|destruct ((97 <=? bZ b) && (bZ b <=? 102)) eqn:E2; [|destruct ((65 <=? bZ b) && (bZ b <=? 70)) eqn:E3]].
  - injection H as <-. unfold hexd_byte, hexd_ok, hexd_canon. cbn [hv hupper].
    replace (bZ b - 48 <? 10) with true by lia. replace (48 + (bZ b - 48)) with (bZ b) by lia. rewrite byte_of_Z_bZ.
    split; [reflexivity|]. split; [lia|reflexivity].
  - injection H as <-. unfold hexd_byte, hexd_ok, hexd_canon. cbn [hv hupper].
    replace (bZ b - 87 <? 10) with false by lia. replace (87 + (bZ b - 87)) with (bZ b) by lia. rewrite byte_of_Z_bZ.
    split; [reflexivity|]. split; [lia|reflexivity].
  - injection H as <-. unfold hexd_byte, hexd_ok, hexd_canon. cbn [hv hupper].
    replace (bZ b - 55 <? 10) with false by lia. replace (55 + (bZ b - 55)) with (bZ b) by lia. rewrite byte_of_Z_bZ.
    split; [reflexivity|]. split; lia.
  - discriminate H. Qed.

Lemma take_hex4_bytes : forall h r, hex4_ok h = true -> hex4_canon h = true -> take_hex4 (hex4_bytes h ++ r) = Some (h, r).
Proof. intros [[[a b] c] d] r Hok Hc. unfold hex4_ok, hex4_canon in *.
  apply andb_true_iff in Hok as [Hok Hd]. apply andb_true_iff in Hok as [Hok Hc']. apply andb_true_iff in Hok as [Ha Hb].
  apply andb_true_iff in Hc as [Hc Kd]. apply andb_true_iff in Hc as [Hc Kc]. apply andb_true_iff in Hc as [Ka Kb].
  cbn [hex4_bytes app]. unfold take_hex4.
  rewrite (hexd_of_byte_byte a Ha Ka), (hexd_of_byte_byte b Hb Kb), (hexd_of_byte_byte c Hc' Kc), (hexd_of_byte_byte d Hd Kd).
  reflexivity. Qed.

Lemma take_hex4_sound : forall s h r, take_hex4 s = Some (h, r) -> s = hex4_bytes h ++ r /\ hex4_ok h = true /\ hex4_canon h = true.
Proof. intros s h r H. unfold take_hex4 in H.
  destruct s as [|a [|b [|c [|d r']]]]; try discriminate H.
  destruct (hexd_of_byte a) as [ha|] eqn:Ea; [|discriminate H].
  destruct (hexd_of_byte b) as [hb|] eqn:Eb; [|discriminate H].
  destruct (hexd_of_byte c) as [hc|] eqn:Ec; [|discriminate H].
  destruct (hexd_of_byte d) as [hd|] eqn:Ed; [|discriminate H].
  injection H as <- <-.
  apply hexd_of_byte_sound in Ea as [Ea1 [Ea2 Ea3]]. apply hexd_of_byte_sound in Eb as [Eb1 [Eb2 Eb3]].
  apply hexd_of_byte_sound in Ec as [Ec1 [Ec2 Ec3]]. apply hexd_of_byte_sound in Ed as [Ed1 [Ed2 Ed3]].
  cbn [hex4_bytes app hex4_ok hex4_canon]. rewrite Ea1, Eb1, Ec1, Ed1, Ea2, Eb2, Ec2, Ed2, Ea3, Eb3, Ec3, Ed3.
  repeat split; reflexivity. Qed.

(* the bytes of a hex digit are ASCII letters/digits: never a quote, backslash ... (used for nothing else than lengths) *)
Lemma hex4_bytes_length : forall h, length (hex4_bytes h) = 4%nat.
Proof. intros [[[a b] c] d]. reflexivity. Qed.

(* ---------- strings ---------- *)
Definition sitem_canon (i : sitem) : bool :=
  match i with
  | SU h | SLone h => hex4_canon h
  | SPair hi lo => hex4_canon hi && hex4_canon lo
  | _ => true
  end.
Definition sitems_canon (s : list sitem) : bool := forallb sitem_canon s.

Definition string_cont (f : nat) (i : sitem) (s : bytes) : option (list sitem * bytes) :=
  match ref_string f s with Some (is, rest) => Some (i :: is, rest) | None => None end.

Lemma ref_string_cons : forall f c t, ref_string (S f) (c :: t) =
  if byte_eqb c x22 then Some ([], t)
  else if byte_eqb c x5c then
    match t with
    | [] => None
    | e :: u =>
        if byte_eqb e x75 then
          match take_hex4 u with
          | None => None
          | Some (h, r1) =>
              let v := hex4_val h in
              if is_high v then
                match r1 with
                | b1 :: b2 :: r2 =>
                    if byte_eqb b1 x5c && byte_eqb b2 x75 then
                      match take_hex4 r2 with
                      | Some (l, r3) => if is_low (hex4_val l) then string_cont f (SPair h l) r3 else string_cont f (SLone h) r1
                      | None => None
                      end
                    else string_cont f (SLone h) r1
                | _ => string_cont f (SLone h) r1
                end
              else if is_low v then string_cont f (SLone h) r1
              else string_cont f (SU h) r1
          end
        else match esc_of_byte e with
             | Some k => string_cont f (SEsc k) u
             | None => None
             end
    end
  else
    let '(r, n) := decode_rune (c :: t) in
    if ((r =? rune_error) && Nat.eqb n 1) || (r <? 32) then None
    else string_cont f (SChar r) (skipn n (c :: t)).
Proof. reflexivity. Qed.

Lemma ref_string_nil : forall f, ref_string f [] = None.
Proof. intros [|f]; reflexivity. Qed.

Lemma esc_of_byte_letter : forall e, esc_of_byte (esc_letter e) = Some e.
Proof. intros e. destruct e; reflexivity. Qed.
Lemma esc_letter_not_u : forall e, byte_eqb (esc_letter e) x75 = false.
Proof. intros e. destruct e; reflexivity. Qed.
Lemma esc_of_byte_sound : forall b e, esc_of_byte b = Some e -> b = esc_letter e.
Proof. intros b e H. unfold esc_of_byte in H. cbv zeta in H.
  repeat match type of H with (if ?c then _ else _) = _ => destruct c eqn:?E end; try discriminate H;
  injection H as <-; apply bZ_inj; cbn [esc_letter]; bz_eval; lia. Qed.

Lemma encode_rune_head : forall r, valid_rune r = true -> 32 <= r -> r <> 34 -> r <> 92 ->
  exists c e, encode_rune r = c :: e /\ 32 <= bZ c /\ bZ c <> 34 /\ bZ c <> 92.
Proof. intros r V H1 H2 H3. destruct (Z.ltb_spec r 128) as [L|L].
  - destruct (encode_rune_head_ascii r V L) as [E Bz]. exists (byte_of_Z r), []. rewrite Bz. repeat split; auto.
  - pose proof (encode_rune_nonascii_bytes r V L) as F.
    destruct (encode_rune r) as [|c e] eqn:E; [exfalso; apply (encode_rune_nonnil r E)|].
    inversion F as [|c' e' Hc Hr]; subst. exists c, e. split; [reflexivity|]. lia. Qed.

Lemma schar_ok_inv : forall r, valid_rune r && (32 <=? r) && negb (r =? 34) && negb (r =? 92) = true ->
  valid_rune r = true /\ 32 <= r /\ r <> 34 /\ r <> 92.
Proof. intros r H. apply andb_true_iff in H as [H H3]. apply andb_true_iff in H as [H H2]. apply andb_true_iff in H as [H0 H1].
  repeat split; try assumption; lia. Qed.

Definition no_low_follow (r1 : bytes) : Prop :=
  forall r2, r1 = x5c :: x75 :: r2 -> exists l r3, take_hex4 r2 = Some (l, r3) /\ is_low (hex4_val l) = false.

Lemma sitem_step : forall f i r1, sitem_ok i = true -> sitem_canon i = true ->
  (forall h, i = SLone h -> is_high (hex4_val h) = true -> no_low_follow r1) ->
  ref_string (S f) (render_sitem i ++ r1) = string_cont f i r1.
Proof. intros f i r1 Hok Hc Hf. destruct i as [r | e | h | hi lo | h]; cbn [render_sitem sitem_ok sitem_canon] in *.
  - (* SChar *)
    destruct (schar_ok_inv r Hok) as [V [R1 [R2 R3]]].
    destruct (encode_rune_head r V R1 R2 R3) as [c [e [E [C1 [C2 C3]]]]].
    pose proof (decode_encode r r1 V) as D. pose proof (encode_rune_not_error1 r V) as NE.
    pose proof (skipn_length_app (encode_rune r) r1) as SK.
    rewrite E in D, SK |- *. cbn [app] in *. rewrite ref_string_cons. bf c x22. bf c x5c. rewrite D.
    rewrite <- E. rewrite NE. replace (r <? 32) with false by lia. cbn [orb]. rewrite E. rewrite SK. reflexivity.
  - (* SEsc *)
    cbn [app]. rewrite ref_string_cons. beq_eval. cbv iota. rewrite esc_letter_not_u. rewrite esc_of_byte_letter. reflexivity.
  - (* SU *)
    cbn [app]. rewrite ref_string_cons. beq_eval. cbv iota.
    apply andb_true_iff in Hok as [Hok H2]. apply andb_true_iff in Hok as [Hok H1].
    rewrite (take_hex4_bytes h r1 Hok Hc). cbv zeta. apply negb_true_iff in H1, H2. rewrite H1, H2. reflexivity.
  - (* SPair *)
    apply andb_true_iff in Hok as [Hok H2]. apply andb_true_iff in Hok as [Hok H1]. apply andb_true_iff in Hok as [Oh Ol].
    apply andb_true_iff in Hc as [Ch Cl].
    cbn [app]. rewrite <- app_assoc. cbn [app]. rewrite ref_string_cons. beq_eval. cbv iota.
    rewrite (take_hex4_bytes hi _ Oh Ch). cbv zeta. rewrite H1. beq_eval. cbn [andb].
    rewrite (take_hex4_bytes lo r1 Ol Cl). rewrite H2. reflexivity.
  - (* SLone *)
    apply andb_true_iff in Hok as [Hok H1].
    cbn [app]. rewrite ref_string_cons. beq_eval. cbv iota.
    rewrite (take_hex4_bytes h r1 Hok Hc). cbv zeta.
    destruct (is_high (hex4_val h)) eqn:Hh.
    + specialize (Hf h eq_refl Hh). destruct r1 as [|b1 [|b2 r2]]; try reflexivity.
      destruct (byte_eqb b1 x5c) eqn:E1; [|reflexivity]. destruct (byte_eqb b2 x75) eqn:E2; [|reflexivity].
      beq_subst E1. beq_subst E2. destruct (Hf r2 eq_refl) as [l [r3 [T L]]]. cbn [andb]. rewrite T, L. reflexivity.
    + cbn [orb] in H1. rewrite H1. reflexivity. Qed.

Lemma no_low_follow_items : forall h t rest, is_high (hex4_val h) = true -> sitems_ok (SLone h :: t) = true ->
  sitems_canon t = true -> no_low_follow (flat_map render_sitem t ++ x22 :: rest).
Proof. intros h t rest Hh Hok Hc r2 E. destruct t as [|i t'].
  - cbn [flat_map app] in E. discriminate E.
  - cbn [sitems_ok] in Hok. apply andb_true_iff in Hok as [Hok Hx]. apply andb_true_iff in Hok as [_ Hok].
    cbn [sitems_ok] in Hok. apply andb_true_iff in Hok as [Hok _]. apply andb_true_iff in Hok as [Hi _].
    unfold sitems_canon in Hc. cbn [forallb] in Hc. apply andb_true_iff in Hc as [Ci _].
    cbn [flat_map] in E. rewrite <- app_assoc in E.
    destruct i as [r | e | h' | hi lo | l]; cbn [render_sitem sitem_ok sitem_canon] in *.
    + exfalso. destruct (schar_ok_inv r Hi) as [V [R1 [R2 R3]]].
      destruct (encode_rune_head r V R1 R2 R3) as [c [e [E' [C1 [C2 C3]]]]].
      rewrite E' in E. cbn [app] in E. injection E as -> _. bz_eval_in C3. lia.
    + exfalso. cbn [app] in E. injection E as E _. destruct e; discriminate E.
    + cbn [app] in E. injection E as <-. apply andb_true_iff in Hi as [Hi H2]. apply andb_true_iff in Hi as [Hi H1].
      exists h', (flat_map render_sitem t' ++ x22 :: rest). split; [apply take_hex4_bytes; assumption|].
      apply negb_true_iff in H2. exact H2.
    + cbn [app] in E. rewrite <- app_assoc in E. injection E as <-.
      apply andb_true_iff in Hi as [Hi H2]. apply andb_true_iff in Hi as [Hi H1]. apply andb_true_iff in Hi as [Oh Ol].
      apply andb_true_iff in Ci as [Ch Cl].
      eexists hi, _. split; [apply take_hex4_bytes; assumption|]. unfold is_high, is_low in *. lia.
    + cbn [app] in E. injection E as <-. apply andb_true_iff in Hi as [Hi H1].
      exists l, (flat_map render_sitem t' ++ x22 :: rest). split; [apply take_hex4_bytes; assumption|].
      rewrite Hh in Hx. cbn [andb] in Hx. apply negb_true_iff in Hx. exact Hx. Qed.

Lemma ref_string_complete : forall items rest fuel, sitems_ok items = true -> sitems_canon items = true ->
  (length items < fuel)%nat -> ref_string fuel (flat_map render_sitem items ++ x22 :: rest) = Some (items, rest).
Proof. induction items as [|i t IH]; intros rest fuel Hok Hc Hf.
  - destruct fuel as [|f]; [cbn [length] in Hf; lia|]. cbn [flat_map app]. rewrite ref_string_cons. beq_eval. reflexivity.
  - destruct fuel as [|f]; [cbn [length] in Hf; lia|]. cbn [length] in Hf.
    pose proof Hok as Hok'. cbn [sitems_ok] in Hok. apply andb_true_iff in Hok as [Hok Hx]. apply andb_true_iff in Hok as [Hi Ht].
    pose proof Hc as Hc'. unfold sitems_canon in Hc. cbn [forallb] in Hc. apply andb_true_iff in Hc as [Ci Ct].
    cbn [flat_map]. rewrite <- app_assoc. rewrite sitem_step; [| exact Hi | exact Ci |].
    + unfold string_cont. rewrite IH; [reflexivity | exact Ht | exact Ct | lia].
    + intros h -> Hh. apply (no_low_follow_items h t rest Hh Hok' Ct). Qed.

Lemma render_sitem_nonnil : forall i, (1 <= length (render_sitem i))%nat.
Proof. intros [r | e | h | hi lo | h]; cbn [render_sitem length]; try lia. apply encode_rune_length. Qed.

Lemma items_length_le : forall items, (length items <= length (flat_map render_sitem items))%nat.
Proof. induction items as [|i t IH]; [reflexivity|]. cbn [flat_map length]. rewrite app_length.
  pose proof (render_sitem_nonnil i). lia. Qed.

(* soundness of the string decoder *)
Definition string_post (s : bytes) (items : list sitem) (rest : bytes) : Prop :=
  s = flat_map render_sitem items ++ x22 :: rest /\ sitems_ok items = true /\ sitems_canon items = true.
Definition low_excluded (r1 : bytes) : Prop :=
  forall l r', r1 = x5c :: x75 :: hex4_bytes l ++ r' -> hex4_ok l = true -> hex4_canon l = true -> is_low (hex4_val l) = false.

Lemma cont_sound : forall f, (forall s items rest, ref_string f s = Some (items, rest) -> string_post s items rest) ->
  forall i s' items rest, string_cont f i s' = Some (items, rest) -> sitem_ok i = true -> sitem_canon i = true ->
  (forall h, i = SLone h -> is_high (hex4_val h) = true -> low_excluded s') ->
  string_post (render_sitem i ++ s') items rest.
Proof. intros f IH i s' items rest H Hok Hc Hq. unfold string_cont in H.
  destruct (ref_string f s') as [[is rest']|] eqn:R; [|discriminate H]. injection H as <- <-.
  destruct (IH s' is rest' R) as [E [Ok Cn]]. unfold string_post. split; [|split].
  - cbn [flat_map]. rewrite <- app_assoc. rewrite <- E. reflexivity.
  - cbn [sitems_ok]. rewrite Hok, Ok. cbn [andb].
    destruct i as [r | e | h | hi lo | h]; try reflexivity.
    destruct is as [|[r | e | h' | hi lo | l] is']; try reflexivity.
    destruct (is_high (hex4_val h)) eqn:Hh; [|reflexivity]. cbn [andb]. apply negb_true_iff.
    cbn [sitems_ok sitem_ok] in Ok. apply andb_true_iff in Ok as [Ok _]. apply andb_true_iff in Ok as [Ok _].
    apply andb_true_iff in Ok as [Ol _].
    unfold sitems_canon in Cn. cbn [forallb sitem_canon] in Cn. apply andb_true_iff in Cn as [Cl _].
    apply (Hq h eq_refl Hh l (flat_map render_sitem is' ++ x22 :: rest')); [|exact Ol|exact Cl].
    rewrite E. cbn [flat_map render_sitem]. rewrite <- app_assoc. reflexivity.
  - unfold sitems_canon in *. cbn [forallb]. rewrite Hc, Cn. reflexivity. Qed.

Lemma ref_string_sound : forall fuel s items rest, ref_string fuel s = Some (items, rest) -> string_post s items rest.
Proof. induction fuel as [|f IH]; intros s items rest H; [discriminate H|].
  destruct s as [|c t]; [rewrite ref_string_nil in H; discriminate H|].
  rewrite ref_string_cons in H.
  destruct (byte_eqb c x22) eqn:E1.
  { beq_subst E1. injection H as <- <-. repeat split. }
  destruct (byte_eqb c x5c) eqn:E2.
  { beq_subst E2. destruct t as [|e u]; [discriminate H|].
    destruct (byte_eqb e x75) eqn:E3.
    - beq_subst E3. destruct (take_hex4 u) as [[h r1]|] eqn:T; [|discriminate H].
      apply take_hex4_sound in T as [-> [Oh Ch]]. cbv zeta in H.
      destruct (is_high (hex4_val h)) eqn:Hh.
      + assert (L : forall items rest, low_excluded r1 -> string_cont f (SLone h) r1 = Some (items, rest) ->
                    string_post (x5c :: x75 :: hex4_bytes h ++ r1) items rest).
        { intros items' rest' Q H'. apply (cont_sound f IH (SLone h) r1 items' rest' H').
          - cbn [sitem_ok]. rewrite Oh, Hh. reflexivity.
          - exact Ch.
          - intros h0 _ _. exact Q. }
        destruct r1 as [|b1 [|b2 r2]].
        * apply L; [|exact H]. intros l r' E. discriminate E.
        * apply L; [|exact H]. intros l r' E. discriminate E.
        * destruct (byte_eqb b1 x5c && byte_eqb b2 x75) eqn:E4.
          -- apply andb_true_iff in E4 as [E4 E5]. beq_subst E4. beq_subst E5.
             destruct (take_hex4 r2) as [[l r3]|] eqn:T2; [|discriminate H].
             destruct (is_low (hex4_val l)) eqn:Hl.
             ++ apply take_hex4_sound in T2 as [-> [Ol Cl]].
                pose proof (cont_sound f IH (SPair h l) r3 items rest H) as P.
                cbn [render_sitem] in P. cbn [app] in P. rewrite <- app_assoc in P. cbn [app] in P. apply P.
                ** cbn [sitem_ok]. rewrite Oh, Ol, Hh, Hl. reflexivity.
                ** cbn [sitem_canon]. rewrite Ch, Cl. reflexivity.
                ** intros h0 E. discriminate E.
             ++ apply L; [|exact H]. intros l' r' E Ol' Cl'. injection E as ->.
                rewrite (take_hex4_bytes l' r' Ol' Cl') in T2. injection T2 as <- <-. exact Hl.
          -- apply L; [|exact H]. intros l r' E. injection E as -> -> _. vm_compute in E4. discriminate E4.
      + destruct (is_low (hex4_val h)) eqn:Hl.
        * apply (cont_sound f IH (SLone h) r1 items rest H).
          -- cbn [sitem_ok]. rewrite Oh, Hh, Hl. reflexivity.
          -- exact Ch.
          -- intros h0 E Hh0. injection E as <-. congruence.
        * apply (cont_sound f IH (SU h) r1 items rest H).
          -- cbn [sitem_ok]. rewrite Oh, Hh, Hl. reflexivity.
          -- exact Ch.
          -- intros h0 E. discriminate E.
    - destruct (esc_of_byte e) as [k|] eqn:K; [|discriminate H]. apply esc_of_byte_sound in K. subst e.
      apply (cont_sound f IH (SEsc k) u items rest H); try reflexivity. intros h0 E. discriminate E. }
  destruct (decode_rune (c :: t)) as [r n] eqn:D.
  destruct (((r =? rune_error) && Nat.eqb n 1) || (r <? 32)) eqn:E3; [discriminate H|].
  apply orb_false_iff in E3 as [E3 E4].
  assert (Hn : n <> 0%nat). { pose proof (decode_rune_nonempty_pos (c :: t) r n D). assert (c :: t <> []) by discriminate. lia. }
  destruct (decode_ok_encode (c :: t) r n D Hn E3) as [V [_ [Es Ln]]].
  rewrite Es. apply (cont_sound f IH (SChar r) (skipn n (c :: t)) items rest H).
  - cbn [sitem_ok]. rewrite V. replace (32 <=? r) with true by lia. cbn [andb].
    (* r = 34 or 92 would make the first byte a quote / backslash *)
    assert (R : r <> 34 /\ r <> 92).
    { split; intros ->.
      - rewrite (encode_ascii 34) in Es by lia. cbn [app] in Es. injection Es as -> _. vm_compute in E1. discriminate E1.
      - rewrite (encode_ascii 92) in Es by lia. cbn [app] in Es. injection Es as -> _. vm_compute in E2. discriminate E2. }
    lia.
  - reflexivity.
  - intros h0 E. discriminate E. Qed.

(* ---------- numbers ---------- *)
Definition nondigit_head (s : bytes) : Prop := match s with [] => True | c :: _ => is_digit c = false end.

Lemma span_digits_app : forall d rest, forallb is_digit d = true -> nondigit_head rest -> span_digits (d ++ rest) = (d, rest).
Proof. induction d as [|c d IH]; intros rest Hd Hr.
  - cbn [app]. destruct rest as [|c t]; [reflexivity|]. cbn [nondigit_head] in Hr. cbn [span_digits]. rewrite Hr. reflexivity.
  - cbn [forallb] in Hd. apply andb_true_iff in Hd as [Hc Hd]. cbn [app span_digits]. rewrite Hc. rewrite (IH rest Hd Hr). reflexivity. Qed.

Lemma span_digits_sound : forall s d r, span_digits s = (d, r) -> s = d ++ r /\ forallb is_digit d = true /\ nondigit_head r.
Proof. induction s as [|c t IH]; intros d r H.
  - cbn [span_digits] in H. injection H as <- <-. repeat split.
  - cbn [span_digits] in H. destruct (is_digit c) eqn:E.
    + destruct (span_digits t) as [d' r'] eqn:S'. injection H as <- <-. destruct (IH d' r' eq_refl) as [-> [Hd Hr]].
      cbn [forallb]. rewrite E, Hd. repeat split. exact Hr.
    + injection H as <- <-. repeat split. cbn [nondigit_head]. exact E. Qed.

Definition neg_text (neg : bool) : bytes := if neg then [x2d] else [].
Definition frac_text (fr : option bytes) : bytes := match fr with Some f => x2e :: f | None => [] end.
Definition sign_text (sg : esign) : bytes := match sg with SgNone => [] | SgPlus => [x2b] | SgMinus => [x2d] end.
Definition exp_text (ex : option (bool * esign * bytes)) : bytes :=
  match ex with Some (up, sg, e) => (if up then x45 else x65) :: sign_text sg ++ e | None => [] end.
Lemma render_num_eq : forall n, render_num n = neg_text (n_neg n) ++ n_int n ++ frac_text (n_frac n) ++ exp_text (n_exp n).
Proof. intros [neg ip fr [[[up sg] e]|]]; reflexivity. Qed.

Definition num_neg (s : bytes) : bool * bytes :=
  match s with c :: t => if byte_eqb c x2d then (true, t) else (false, s) | [] => (false, s) end.
Definition num_frac (s2 : bytes) : option bytes * bytes :=
  match s2 with
  | c :: t => if byte_eqb c x2e then let '(f, r) := span_digits t in (Some f, r) else (None, s2)
  | [] => (None, s2) end.
Definition num_sign (t : bytes) : esign * bytes :=
  match t with
  | g :: u => if byte_eqb g x2b then (SgPlus, u) else if byte_eqb g x2d then (SgMinus, u) else (SgNone, t)
  | [] => (SgNone, t) end.
Definition num_exp (s3 : bytes) : option (bool * esign * bytes) * bytes :=
  match s3 with
  | c :: t => if byte_eqb c x65 || byte_eqb c x45 then
                let '(sg, t') := num_sign t in
                let '(e, r) := span_digits t' in (Some (byte_eqb c x45, sg, e), r)
              else (None, s3)
  | [] => (None, s3) end.
Lemma ref_number_eq : forall s, ref_number s =
  let '(neg, s1) := num_neg s in
  let '(ip, s2) := span_digits s1 in
  let '(fr, s3) := num_frac s2 in
  let '(ex, s4) := num_exp s3 in
  let n := mkNum neg ip fr ex in
  if jnum_ok n then Some (n, s4) else None.
Proof. reflexivity. Qed.

Lemma is_digit_bZ : forall c, is_digit c = true -> 48 <= bZ c <= 57.
Proof. intros c H. unfold is_digit in H. lia. Qed.

Lemma digits_ok_inv : forall d, digits_ok d = true -> forallb is_digit d = true /\ exists c t, d = c :: t /\ 48 <= bZ c <= 57.
Proof. intros [|c t] H; [discriminate H|]. unfold digits_ok in H. split; [exact H|]. exists c, t. split; [reflexivity|].
  cbn [forallb] in H. apply andb_true_iff in H as [H _]. apply is_digit_bZ. exact H. Qed.

(* what may follow a number token [n]: no character that would extend its last part *)
Definition num_follow (n : jnum) (rest : bytes) : Prop :=
  match rest with
  | [] => True
  | c :: _ => is_digit c = false /\
              (n_exp n = None -> byte_eqb c x65 = false /\ byte_eqb c x45 = false) /\
              (n_exp n = None -> n_frac n = None -> byte_eqb c x2e = false)
  end.

Lemma num_neg_text : forall neg ip tl, digits_ok ip = true -> num_neg (neg_text neg ++ ip ++ tl) = (neg, ip ++ tl).
Proof. intros neg ip tl H. destruct neg; cbn [neg_text app].
  - unfold num_neg. beq_eval. reflexivity.
  - destruct (digits_ok_inv ip H) as [_ [c [t [-> Hc]]]]. cbn [app]. unfold num_neg. bf c x2d. reflexivity. Qed.

Lemma num_frac_text : forall fr tl, match fr with Some f => digits_ok f = true | None => True end ->
  nondigit_head tl -> (fr = None -> match tl with [] => True | c :: _ => byte_eqb c x2e = false end) ->
  num_frac (frac_text fr ++ tl) = (fr, tl).
Proof. intros [f|] tl Hf Hd Hp; cbn [frac_text app].
  - unfold num_frac. beq_eval. cbv iota. destruct (digits_ok_inv f Hf) as [Hall _]. rewrite (span_digits_app f tl Hall Hd). reflexivity.
  - specialize (Hp eq_refl). destruct tl as [|c t]; [reflexivity|]. unfold num_frac. rewrite Hp. reflexivity. Qed.

Lemma num_exp_text : forall ex rest, match ex with Some (_, _, e) => digits_ok e = true | None => True end ->
  nondigit_head rest -> (ex = None -> match rest with [] => True | c :: _ => byte_eqb c x65 = false /\ byte_eqb c x45 = false end) ->
  num_exp (exp_text ex ++ rest) = (ex, rest).
Proof. intros [[[up sg] e]|] rest He Hd Hp; cbn [exp_text app].
  - destruct (digits_ok_inv e He) as [Hall [g [e' [Ee Hg]]]].
    assert (S1 : num_sign ((sign_text sg ++ e) ++ rest) = (sg, e ++ rest)).
    { destruct sg; cbn [sign_text app]; unfold num_sign.
      - subst e. cbn [app]. bf g x2b. bf g x2d. reflexivity.
      - beq_eval. reflexivity.
      - beq_eval. reflexivity. }
    unfold num_exp. destruct up; beq_eval; cbn [orb]; cbv iota; rewrite S1; rewrite (span_digits_app e rest Hall Hd); reflexivity.
  - specialize (Hp eq_refl). destruct rest as [|c t]; [reflexivity|]. destruct Hp as [H1 H2]. unfold num_exp. rewrite H1, H2. reflexivity. Qed.

Lemma jnum_ok_inv : forall n, jnum_ok n = true ->
  digits_ok (n_int n) = true /\ match n_frac n with Some f => digits_ok f = true | None => True end /\
  match n_exp n with Some (_, _, e) => digits_ok e = true | None => True end.
Proof. intros [neg ip fr ex] H. unfold jnum_ok in H. cbn [n_int n_frac n_exp] in *.
  apply andb_true_iff in H as [H H3]. apply andb_true_iff in H as [H1 H2]. unfold int_part_ok in H1. apply andb_true_iff in H1 as [H1 _].
  split; [exact H1|]. split.
  - destruct fr; [exact H2|exact I].
  - destruct ex as [[[up sg] e]|]; [exact H3|exact I]. Qed.

Lemma ref_number_complete : forall n rest, jnum_ok n = true -> num_follow n rest -> ref_number (render_num n ++ rest) = Some (n, rest).
Proof. intros n rest Hok Hf. destruct (jnum_ok_inv n Hok) as [Hi [Hfr Hex]].
  rewrite render_num_eq. destruct n as [neg ip fr ex]. cbn [n_neg n_int n_frac n_exp] in *.
  rewrite <- !app_assoc. rewrite ref_number_eq.
  assert (D3 : nondigit_head rest). { destruct rest as [|c t]; [exact I|]. cbn [num_follow] in Hf. apply Hf. }
  assert (D2 : nondigit_head (exp_text ex ++ rest)).
  { destruct ex as [[[up sg] e]|]; [|exact D3]. cbn [exp_text app nondigit_head]. destruct up; reflexivity. }
  assert (D1 : nondigit_head (frac_text fr ++ exp_text ex ++ rest)).
  { destruct fr as [f|]; [|exact D2]. reflexivity. }
  rewrite (num_neg_text neg ip _ Hi). cbv iota beta.
  destruct (digits_ok_inv ip Hi) as [Hall _]. rewrite (span_digits_app ip _ Hall D1). cbv iota beta.
  rewrite (num_frac_text fr _ Hfr D2). 
  2:{ intros ->. destruct ex as [[[up sg] e]|].
      - cbn [exp_text app]. destruct up; reflexivity.
      - cbn [exp_text app]. destruct rest as [|c t]; [exact I|]. cbn [num_follow n_exp n_frac] in Hf. apply Hf; reflexivity. }
  cbv iota beta.
  rewrite (num_exp_text ex rest Hex D3).
  2:{ intros ->. destruct rest as [|c t]; [exact I|]. cbn [num_follow n_exp n_frac] in Hf. apply Hf; reflexivity. }
  cbv iota beta zeta. rewrite Hok. reflexivity. Qed.

Lemma num_neg_sound : forall s neg s1, num_neg s = (neg, s1) -> s = neg_text neg ++ s1.
Proof. intros [|c t] neg s1 H; unfold num_neg in H.
  - injection H as <- <-. reflexivity.
  - destruct (byte_eqb c x2d) eqn:E; injection H as <- <-; [beq_subst E|]; reflexivity. Qed.

Lemma num_frac_sound : forall s fr s3, num_frac s = (fr, s3) ->
  s = frac_text fr ++ s3 /\ match fr with Some f => forallb is_digit f = true | None => True end.
Proof. intros [|c t] fr s3 H; unfold num_frac in H.
  - injection H as <- <-. split; [reflexivity|exact I].
  - destruct (byte_eqb c x2e) eqn:E.
    + beq_subst E. destruct (span_digits t) as [f r] eqn:Sp. injection H as <- <-.
      destruct (span_digits_sound t f r Sp) as [-> [Hd _]]. split; [reflexivity|exact Hd].
    + injection H as <- <-. split; [reflexivity|exact I]. Qed.

Lemma num_sign_sound : forall t sg t', num_sign t = (sg, t') -> t = sign_text sg ++ t'.
Proof. intros [|g u] sg t' H; unfold num_sign in H.
  - injection H as <- <-. reflexivity.
  - destruct (byte_eqb g x2b) eqn:E1; [|destruct (byte_eqb g x2d) eqn:E2]; injection H as <- <-.
    + beq_subst E1. reflexivity.
    + beq_subst E2. reflexivity.
    + reflexivity. Qed.

Lemma num_exp_sound : forall s ex s4, num_exp s = (ex, s4) -> s = exp_text ex ++ s4.
Proof. intros [|c t] ex s4 H; unfold num_exp in H.
  - injection H as <- <-. reflexivity.
  - destruct (byte_eqb c x65 || byte_eqb c x45) eqn:E.
    + destruct (num_sign t) as [sg t'] eqn:Sg. destruct (span_digits t') as [e r] eqn:Sp. injection H as <- <-.
      apply num_sign_sound in Sg. destruct (span_digits_sound t' e r Sp) as [-> _]. subst t.
      cbn [exp_text app]. rewrite <- app_assoc. f_equal.
      destruct (byte_eqb c x45) eqn:E2; [beq_subst E2; reflexivity|]. rewrite orb_false_r in E. beq_subst E. reflexivity.
    + injection H as <- <-. reflexivity. Qed.

Lemma ref_number_sound : forall s n r, ref_number s = Some (n, r) -> s = render_num n ++ r /\ jnum_ok n = true.
Proof. intros s n r H. rewrite ref_number_eq in H.
  destruct (num_neg s) as [neg s1] eqn:E1. destruct (span_digits s1) as [ip s2] eqn:E2.
  destruct (num_frac s2) as [fr s3] eqn:E3. destruct (num_exp s3) as [ex s4] eqn:E4. cbv zeta in H.
  destruct (jnum_ok (mkNum neg ip fr ex)) eqn:Ok; [|discriminate H]. injection H as <- <-.
  split; [|exact Ok]. rewrite render_num_eq. cbn [n_neg n_int n_frac n_exp].
  apply num_neg_sound in E1. apply span_digits_sound in E2 as [E2 _]. apply num_frac_sound in E3 as [E3 _]. apply num_exp_sound in E4.
  subst. rewrite <- !app_assoc. reflexivity. Qed.

(* ---------- the value decoder: named comma loops and the unfolding lemma ---------- *)
Definition ref_elems (rv : bytes -> option (doc * bytes)) :=
  fix elems (g : nat) (a : ws) (s : bytes) (acc : list (ws * doc * ws)) {struct g} : option (doc * bytes) :=
    match g with
    | O => None
    | S g' =>
        match rv s with
        | None => None
        | Some (x, s1) =>
            let '(b, s2) := take_ws s1 in
            match s2 with
            | d :: s3 =>
                if byte_eqb d x5d then Some (DArr [] (acc ++ [(a, x, b)]), s3)
                else if byte_eqb d x2c then let '(a', s4) := take_ws s3 in elems g' a' s4 (acc ++ [(a, x, b)])
                else None
            | [] => None
            end
        end
    end.

Definition ref_members (rv : bytes -> option (doc * bytes)) :=
  fix members (g : nat) (a : ws) (s : bytes) (acc : list (ws * list sitem * ws * ws * doc * ws)) {struct g} : option (doc * bytes) :=
    match g with
    | O => None
    | S g' =>
        match s with
        | q :: s0 =>
            if negb (byte_eqb q x22) then None
            else match ref_string (S (length s0)) s0 with
                 | None => None
                 | Some (k, s1) =>
                     let '(b, s2) := take_ws s1 in
                     match s2 with
                     | col :: s3 =>
                         if negb (byte_eqb col x3a) then None
                         else let '(cws, s4) := take_ws s3 in
                              match rv s4 with
                              | None => None
                              | Some (x, s5) =>
                                  let '(e, s6) := take_ws s5 in
                                  match s6 with
                                  | d :: s7 =>
                                      if byte_eqb d x7d then Some (DObj [] (acc ++ [(a, k, b, cws, x, e)]), s7)
                                      else if byte_eqb d x2c then let '(a', s8) := take_ws s7 in members g' a' s8 (acc ++ [(a, k, b, cws, x, e)])
                                      else None
                                  | [] => None
                                  end
                              end
                     | [] => None
                     end
                 end
        | [] => None
        end
    end.

Lemma ref_value_cons : forall f c t, ref_value (S f) (c :: t) =
  if byte_eqb c x6e then match starts_with (B"null") (c :: t) with Some r => Some (DNull, r) | None => None end
  else if byte_eqb c x74 then match starts_with (B"true") (c :: t) with Some r => Some (DTrue, r) | None => None end
  else if byte_eqb c x66 then match starts_with (B"false") (c :: t) with Some r => Some (DFalse, r) | None => None end
  else if byte_eqb c x22 then match ref_string (S (length t)) t with Some (is, r) => Some (DStr is, r) | None => None end
  else if byte_eqb c x5b then
    let '(w, r0) := take_ws t in
    match r0 with
    | c0 :: r1 => if byte_eqb c0 x5d then Some (DArr w [], r1) else ref_elems (ref_value f) (S (length r0)) w r0 []
    | [] => None
    end
  else if byte_eqb c x7b then
    let '(w, r0) := take_ws t in
    match r0 with
    | c0 :: r1 => if byte_eqb c0 x7d then Some (DObj w [], r1) else ref_members (ref_value f) (S (length r0)) w r0 []
    | [] => None
    end
  else match ref_number (c :: t) with Some (n, r) => Some (DNum n, r) | None => None end.
Proof. reflexivity. Qed.

Lemma ref_value_nil : forall f, ref_value f [] = None.
Proof. intros [|f]; reflexivity. Qed.

Lemma ref_elems_S : forall rv g a s acc, ref_elems rv (S g) a s acc =
  match rv s with
  | None => None
  | Some (x, s1) =>
      let '(b, s2) := take_ws s1 in
      match s2 with
      | d :: s3 =>
          if byte_eqb d x5d then Some (DArr [] (acc ++ [(a, x, b)]), s3)
          else if byte_eqb d x2c then let '(a', s4) := take_ws s3 in ref_elems rv g a' s4 (acc ++ [(a, x, b)])
          else None
      | [] => None
      end
  end.
Proof. reflexivity. Qed.

Lemma ref_members_S : forall rv g a q s0 acc, ref_members rv (S g) a (q :: s0) acc =
  if negb (byte_eqb q x22) then None
  else match ref_string (S (length s0)) s0 with
       | None => None
       | Some (k, s1) =>
           let '(b, s2) := take_ws s1 in
           match s2 with
           | col :: s3 =>
               if negb (byte_eqb col x3a) then None
               else let '(cws, s4) := take_ws s3 in
                    match rv s4 with
                    | None => None
                    | Some (x, s5) =>
                        let '(e, s6) := take_ws s5 in
                        match s6 with
                        | d :: s7 =>
                            if byte_eqb d x7d then Some (DObj [] (acc ++ [(a, k, b, cws, x, e)]), s7)
                            else if byte_eqb d x2c then let '(a', s8) := take_ws s7 in ref_members rv g a' s8 (acc ++ [(a, k, b, cws, x, e)])
                            else None
                        | [] => None
                        end
                    end
           | [] => None
           end
       end.
Proof. reflexivity. Qed.
Arguments ref_elems : simpl never.
Arguments ref_members : simpl never.

(* ---------- named comma loops of [render] ---------- *)
Fixpoint render_elems (l : list (ws * doc * ws)) : bytes :=
  match l with
  | [] => []
  | [(a, x, b)] => render_ws a ++ render x ++ render_ws b
  | (a, x, b) :: t => render_ws a ++ render x ++ render_ws b ++ x2c :: render_elems t
  end.
Fixpoint render_members (l : list (ws * list sitem * ws * ws * doc * ws)) : bytes :=
  match l with
  | [] => []
  | [(a, k, b, c, x, e)] => render_ws a ++ render_string k ++ render_ws b ++ x3a :: render_ws c ++ render x ++ render_ws e
  | (a, k, b, c, x, e) :: t =>
      render_ws a ++ render_string k ++ render_ws b ++ x3a :: render_ws c ++ render x ++ render_ws e ++ x2c :: render_members t
  end.
Lemma render_arr_eq : forall w elems,
  render (DArr w elems) = x5b :: match elems with [] => render_ws w | _ => render_elems elems end ++ [x5d].
Proof. reflexivity. Qed.
Lemma render_obj_eq : forall w members,
  render (DObj w members) = x7b :: match members with [] => render_ws w | _ => render_members members end ++ [x7d].
Proof. reflexivity. Qed.

Definition elems_tail (more : list (ws * doc * ws)) : bytes := match more with [] => [] | _ => x2c :: render_elems more end.
Definition members_tail (more : list (ws * list sitem * ws * ws * doc * ws)) : bytes :=
  match more with [] => [] | _ => x2c :: render_members more end.
Lemma render_elems_cons : forall a x b t, render_elems ((a, x, b) :: t) = render_ws a ++ render x ++ render_ws b ++ elems_tail t.
Proof. intros a x b [|e t]; [|reflexivity]. cbn [render_elems elems_tail]. rewrite app_nil_r. reflexivity. Qed.
Lemma render_members_cons : forall a k b c x e t, render_members ((a, k, b, c, x, e) :: t) =
  render_ws a ++ render_string k ++ render_ws b ++ x3a :: render_ws c ++ render x ++ render_ws e ++ members_tail t.
Proof. intros a k b c x e [|m t]; [|reflexivity]. cbn [render_members members_tail]. rewrite app_nil_r. reflexivity. Qed.

(* ---------- canonical derivations: unused slots empty ---------- *)
Definition slot_canon {A} (w : ws) (l : list A) : bool := match l with [] => true | _ => match w with [] => true | _ => false end end.
Fixpoint doc_canon (d : doc) : bool :=
  match d with
  | DStr s => sitems_canon s
  | DArr w elems => slot_canon w elems && forallb (fun e => doc_canon (snd (fst e))) elems
  | DObj w members => slot_canon w members && forallb (fun m => let '(_, k, _, _, x, _) := m in sitems_canon k && doc_canon x) members
  | _ => true
  end.
Lemma doc_ok_arr : forall w elems, doc_ok (DArr w elems) = forallb (fun e => doc_ok (snd (fst e))) elems.
Proof. reflexivity. Qed.
Lemma doc_ok_obj : forall w members,
  doc_ok (DObj w members) = forallb (fun m => let '(_, k, _, _, x, _) := m in sitems_ok k && doc_ok x) members.
Proof. reflexivity. Qed.
Lemma doc_canon_arr : forall w elems,
  doc_canon (DArr w elems) = slot_canon w elems && forallb (fun e => doc_canon (snd (fst e))) elems.
Proof. reflexivity. Qed.
Lemma doc_canon_obj : forall w members, doc_canon (DObj w members) =
  slot_canon w members && forallb (fun m => let '(_, k, _, _, x, _) := m in sitems_canon k && doc_canon x) members.
Proof. reflexivity. Qed.

(* ---------- first byte of a value, followers ---------- *)
Definition value_start (c : byte) : Prop :=
  bZ c = 110 \/ bZ c = 116 \/ bZ c = 102 \/ bZ c = 34 \/ bZ c = 91 \/ bZ c = 123 \/ bZ c = 45 \/ 48 <= bZ c <= 57.

Lemma render_head : forall d, doc_ok d = true -> exists c t, render d = c :: t /\ value_start c.
Proof. intros d H. destruct d as [ | | | n | s | w elems | w members].
  - exists x6e, [x75; x6c; x6c]. split; [reflexivity|]. unfold value_start. bz_eval. lia.
  - exists x74, [x72; x75; x65]. split; [reflexivity|]. unfold value_start. bz_eval. lia.
  - exists x66, [x61; x6c; x73; x65]. split; [reflexivity|]. unfold value_start. bz_eval. lia.
  - cbn [doc_ok render] in *. destruct (jnum_ok_inv n H) as [Hi _]. rewrite render_num_eq.
    destruct (n_neg n); cbn [neg_text app].
    + eexists x2d, _. split; [reflexivity|]. unfold value_start. bz_eval. lia.
    + destruct (digits_ok_inv _ Hi) as [_ [c [t [-> Hc]]]]. cbn [app]. eexists c, _. split; [reflexivity|]. unfold value_start. lia.
  - cbn [render]. unfold render_string. eexists x22, _. split; [reflexivity|]. unfold value_start. bz_eval. lia.
  - rewrite render_arr_eq. eexists x5b, _. split; [reflexivity|]. unfold value_start. bz_eval. lia.
  - rewrite render_obj_eq. eexists x7b, _. split; [reflexivity|]. unfold value_start. bz_eval. lia. Qed.

Lemma value_start_nonblank : forall c t, value_start c -> head_nonblank (c :: t).
Proof. intros c t H. cbn [head_nonblank]. rewrite is_blank_bZ. unfold value_start in H. lia. Qed.

Lemma render_nonblank : forall d tl, doc_ok d = true -> head_nonblank (render d ++ tl).
Proof. intros d tl H. destruct (render_head d H) as [c [t [-> V]]]. cbn [app]. apply value_start_nonblank. exact V. Qed.

(* the text after a value does not continue a number token *)
Definition value_follow (rest : bytes) : Prop :=
  match rest with
  | [] => True
  | c :: _ => is_digit c = false /\ byte_eqb c x2e = false /\ byte_eqb c x65 = false /\ byte_eqb c x45 = false
  end.
(* the precise, value-dependent condition: only numbers need one, and only for the characters extending their last part *)
Definition doc_follow (d : doc) (rest : bytes) : Prop := match d with DNum n => num_follow n rest | _ => True end.

Lemma value_follow_doc : forall d rest, value_follow rest -> doc_follow d rest.
Proof. intros d rest H. destruct d; try exact I. cbn [doc_follow]. destruct rest as [|c t]; [exact I|].
  cbn [value_follow num_follow] in *. destruct H as [H1 [H2 [H3 H4]]]. repeat split; auto. Qed.

Lemma value_follow_ws : forall b tl, value_follow tl -> value_follow (render_ws b ++ tl).
Proof. intros [|a b] tl H; [exact H|]. unfold render_ws. cbn [map app]. destruct a; cbn [wsc_byte value_follow]; repeat split; reflexivity. Qed.

Definition is_delim (c : byte) : Prop := c = x2c \/ c = x5d \/ c = x7d.
Lemma value_follow_delim : forall b c tl, is_delim c -> value_follow (render_ws b ++ c :: tl).
Proof. intros b c tl H. apply value_follow_ws. destruct H as [-> | [-> | ->]]; cbn [value_follow]; repeat split; reflexivity. Qed.

(* ---------- (B) completeness ---------- *)
Ltac norm_app := repeat first [ rewrite <- app_assoc in * | rewrite <- app_comm_cons in * ].
Ltac lens := repeat first [ rewrite app_length in * | progress (cbn [length] in * ) ].
Definition complete_at (f : nat) : Prop :=
  forall d rest, doc_ok d = true -> doc_canon d = true -> doc_follow d rest ->
  (length (render d ++ rest) < f)%nat -> ref_value f (render d ++ rest) = Some (d, rest).

Lemma ref_elems_complete : forall f, complete_at f ->
  forall more a x b acc rest g,
  forallb (fun e => doc_ok (snd (fst e))) ((a, x, b) :: more) = true ->
  forallb (fun e => doc_canon (snd (fst e))) ((a, x, b) :: more) = true ->
  (length (render x ++ render_ws b ++ elems_tail more ++ x5d :: rest) < f)%nat ->
  (length (render x ++ render_ws b ++ elems_tail more ++ x5d :: rest) < g)%nat ->
  ref_elems (ref_value f) g a (render x ++ render_ws b ++ elems_tail more ++ x5d :: rest) acc
  = Some (DArr [] (acc ++ (a, x, b) :: more), rest).
Proof. intros f IHv. induction more as [|[[a' x'] b'] more IH]; intros a x b acc rest g Hok Hcn Lf Lg.
  - destruct g as [|g]; [lia|]. cbn [forallb snd fst] in Hok, Hcn.
    apply andb_true_iff in Hok as [Ox _]. apply andb_true_iff in Hcn as [Cx _].
    rewrite ref_elems_S. cbn [elems_tail app] in *.
    rewrite (IHv x _ Ox Cx); [| apply value_follow_doc; apply value_follow_delim; right; left; reflexivity | exact Lf].
    rewrite take_ws_render by reflexivity. beq_eval. reflexivity.
  - destruct g as [|g]; [lia|]. cbn [forallb] in Hok, Hcn.
    apply andb_true_iff in Hok as [Ox Hok]. apply andb_true_iff in Hcn as [Cx Hcn]. cbn [snd fst] in Ox, Cx.
    rewrite ref_elems_S. unfold elems_tail at 1. unfold elems_tail at 1 in Lf. unfold elems_tail at 1 in Lg. cbn [app] in *.
    rewrite (IHv x _ Ox Cx); [| apply value_follow_doc; apply value_follow_delim; left; reflexivity | exact Lf].
    rewrite take_ws_render by reflexivity. beq_eval. cbv iota.
    rewrite render_elems_cons in *. rewrite <- !app_assoc in *.
    pose proof Hok as Hok'. cbn [forallb snd fst] in Hok'. apply andb_true_iff in Hok' as [Ox' _].
    rewrite take_ws_render by (apply render_nonblank; exact Ox').
    rewrite (IH a' x' b' (acc ++ [(a, x, b)]) rest g Hok Hcn).
    + rewrite <- app_assoc. reflexivity.
    + lens. lia.
    + lens. lia. Qed.

Lemma render_string_app : forall k tl, render_string k ++ tl = x22 :: flat_map render_sitem k ++ x22 :: tl.
Proof. intros k tl. unfold render_string. cbn [app]. rewrite <- app_assoc. reflexivity. Qed.

Lemma ref_members_complete : forall f, complete_at f ->
  forall more a k b c x e acc rest g,
  forallb (fun m : ws * list sitem * ws * ws * doc * ws => let '(_, k, _, _, x, _) := m in sitems_ok k && doc_ok x) ((a, k, b, c, x, e) :: more) = true ->
  forallb (fun m : ws * list sitem * ws * ws * doc * ws => let '(_, k, _, _, x, _) := m in sitems_canon k && doc_canon x) ((a, k, b, c, x, e) :: more) = true ->
  (length (render_string k ++ render_ws b ++ x3a :: render_ws c ++ render x ++ render_ws e ++ members_tail more ++ x7d :: rest) < f)%nat ->
  (length (render_string k ++ render_ws b ++ x3a :: render_ws c ++ render x ++ render_ws e ++ members_tail more ++ x7d :: rest) < g)%nat ->
  ref_members (ref_value f) g a
    (render_string k ++ render_ws b ++ x3a :: render_ws c ++ render x ++ render_ws e ++ members_tail more ++ x7d :: rest) acc
  = Some (DObj [] (acc ++ (a, k, b, c, x, e) :: more), rest).
Proof. intros f IHv. induction more as [|[[[[[a' k'] b'] c'] x'] e'] more IH]; intros a k b c x e acc rest g Hok Hcn Lf Lg.
  - destruct g as [|g]; [lia|]. cbn [forallb] in Hok, Hcn.
    apply andb_true_iff in Hok as [Ox _]. apply andb_true_iff in Hcn as [Cx _].
    apply andb_true_iff in Ox as [Ok Ox]. apply andb_true_iff in Cx as [Ck Cx].
    cbn [members_tail app] in *. rewrite render_string_app in *.
    rewrite ref_members_S. beq_eval. cbn [negb]. cbv iota.
    rewrite (ref_string_complete k _ _ Ok Ck) by (pose proof (items_length_le k); lens; lia).
    rewrite take_ws_render by reflexivity. beq_eval. cbn [negb]. cbv iota.
    rewrite take_ws_render by (apply render_nonblank; exact Ox).
    rewrite (IHv x _ Ox Cx); [| apply value_follow_doc; apply value_follow_delim; right; right; reflexivity | lens; lia].
    rewrite take_ws_render by reflexivity. beq_eval. reflexivity.
  - destruct g as [|g]; [lia|]. cbn [forallb] in Hok, Hcn.
    apply andb_true_iff in Hok as [Ox Hok]. apply andb_true_iff in Hcn as [Cx Hcn].
    apply andb_true_iff in Ox as [Ok Ox]. apply andb_true_iff in Cx as [Ck Cx].
    unfold members_tail at 1. unfold members_tail at 1 in Lf. unfold members_tail at 1 in Lg. cbn [app] in *.
    rewrite render_members_cons in *. norm_app.
    rewrite (render_string_app k) in *.
    rewrite ref_members_S. beq_eval. cbn [negb]. cbv iota.
    rewrite (ref_string_complete k _ _ Ok Ck) by (pose proof (items_length_le k); lens; lia).
    rewrite take_ws_render by reflexivity. beq_eval. cbn [negb]. cbv iota.
    rewrite take_ws_render by (apply render_nonblank; exact Ox).
    rewrite (IHv x _ Ox Cx); [| apply value_follow_doc; apply value_follow_delim; left; reflexivity | lens; lia].
    rewrite take_ws_render by reflexivity. beq_eval. cbv iota.
    rewrite take_ws_render by (rewrite render_string_app; reflexivity).
    rewrite (IH a' k' b' c' x' e' (acc ++ [(a, k, b, c, x, e)]) rest g Hok Hcn).
    + rewrite <- app_assoc. reflexivity.
    + lens. lia.
    + lens. lia. Qed.

Lemma render_num_head : forall n, jnum_ok n = true -> exists c t, render_num n = c :: t /\ (bZ c = 45 \/ 48 <= bZ c <= 57).
Proof. intros n H. destruct (jnum_ok_inv n H) as [Hi _]. rewrite render_num_eq. destruct (n_neg n); cbn [neg_text app].
  - eexists x2d, _. split; [reflexivity|]. left. reflexivity.
  - destruct (digits_ok_inv _ Hi) as [_ [c [t [-> Hc]]]]. cbn [app]. eexists c, _. split; [reflexivity|]. right. exact Hc. Qed.

Lemma ref_value_number : forall f c t, (bZ c = 45 \/ 48 <= bZ c <= 57) ->
  ref_value (S f) (c :: t) = match ref_number (c :: t) with Some (n, r) => Some (DNum n, r) | None => None end.
Proof. intros f c t H. rewrite ref_value_cons. bf c x6e. bf c x74. bf c x66. bf c x22. bf c x5b. bf c x7b. reflexivity. Qed.

Lemma slot_canon_cons : forall A w (e : A) l, slot_canon w (e :: l) = true -> w = [].
Proof. intros A [|c w] e l H; [reflexivity|discriminate H]. Qed.

Theorem ref_complete_gen : forall fuel, complete_at fuel.
Proof. induction fuel as [|f IH]; intros d rest Hok Hcn Hfo L; [lia|].
  destruct d as [ | | | n | s | w elems | w members].
  - reflexivity.
  - reflexivity.
  - reflexivity.
  - cbn [render doc_ok doc_follow] in *. destruct (render_num_head n Hok) as [c [t [E V]]].
    rewrite E. cbn [app]. rewrite (ref_value_number f c _ V).
    change (c :: t ++ rest) with ((c :: t) ++ rest). rewrite <- E. rewrite (ref_number_complete n rest Hok Hfo). reflexivity.
  - cbn [render doc_ok doc_canon] in *. rewrite render_string_app in *. rewrite ref_value_cons. beq_eval. cbv iota.
    rewrite (ref_string_complete s rest _ Hok Hcn) by (pose proof (items_length_le s); lens; lia). reflexivity.
  - rewrite doc_ok_arr in Hok. rewrite doc_canon_arr in Hcn. apply andb_true_iff in Hcn as [Hw Hcn].
    rewrite render_arr_eq in *. destruct elems as [|[[a x] b] more].
    + norm_app. cbn [app] in *. rewrite ref_value_cons. beq_eval. cbv iota.
      rewrite take_ws_render by reflexivity. beq_eval. reflexivity.
    + apply slot_canon_cons in Hw. subst w. rewrite render_elems_cons in *. norm_app. cbn [app] in *.
      pose proof Hok as Hok'. cbn [forallb snd fst] in Hok'. apply andb_true_iff in Hok' as [Ox _].
      rewrite ref_value_cons. beq_eval. cbv iota.
      rewrite take_ws_render by (apply render_nonblank; exact Ox).
      destruct (render_head x Ox) as [c0 [t0 [Ex Vx]]].
      remember (render x ++ render_ws b ++ elems_tail more ++ x5d :: rest) as r0 eqn:Er0.
      assert (Er : r0 = c0 :: t0 ++ render_ws b ++ elems_tail more ++ x5d :: rest) by (subst r0; rewrite Ex; reflexivity).
      rewrite Er. cbv iota. replace (byte_eqb c0 x5d) with false by (symmetry; unfold value_start in Vx; bdec).
      rewrite <- Er. subst r0.
      rewrite (ref_elems_complete f IH more a x b [] rest _ Hok Hcn); [reflexivity | lens; lia | lia].
  - rewrite doc_ok_obj in Hok. rewrite doc_canon_obj in Hcn. apply andb_true_iff in Hcn as [Hw Hcn].
    rewrite render_obj_eq in *. destruct members as [|[[[[[a k] b] c] x] e] more].
    + norm_app. cbn [app] in *. rewrite ref_value_cons. beq_eval. cbv iota.
      rewrite take_ws_render by reflexivity. beq_eval. reflexivity.
    + apply slot_canon_cons in Hw. subst w. rewrite render_members_cons in *. norm_app. cbn [app] in *.
      rewrite ref_value_cons. beq_eval. cbv iota.
      rewrite take_ws_render by (rewrite render_string_app; reflexivity).
      remember (render_string k ++ render_ws b ++ x3a :: render_ws c ++ render x ++ render_ws e ++ members_tail more ++ x7d :: rest) as r0 eqn:Er0.
      assert (Er : exists r1, r0 = x22 :: r1) by (subst r0; rewrite render_string_app; eexists; reflexivity).
      destruct Er as [r1 Er]. rewrite Er. cbv iota. beq_eval. cbv iota.
      rewrite <- Er. subst r0.
      rewrite (ref_members_complete f IH more a k b c x e [] rest _ Hok Hcn); [reflexivity | lens; lia | lia]. Qed.

(* (B) as asked: the uniform follower condition *)
Theorem ref_complete : forall d rest, doc_ok d = true -> doc_canon d = true -> value_follow rest ->
  forall fuel, (length (render d ++ rest) < fuel)%nat -> ref_value fuel (render d ++ rest) = Some (d, rest).
Proof. intros d rest Hok Hcn Hf fuel L. apply ref_complete_gen; try assumption. apply value_follow_doc. exact Hf. Qed.

Corollary ref_parse_complete : forall a d b, doc_ok d = true -> doc_canon d = true -> ref_parse (render_text (a, d, b)) = Some (a, d, b).
Proof. intros a d b Hok Hcn. unfold render_text, ref_parse.
  rewrite take_ws_render by (apply render_nonblank; exact Hok).
  rewrite (ref_complete d (render_ws b) Hok Hcn); [| | lia].
  - rewrite <- (app_nil_r (render_ws b)). rewrite take_ws_render by exact I. reflexivity.
  - rewrite <- (app_nil_r (render_ws b)). apply value_follow_ws. exact I. Qed.

(* ---------- (B') soundness ---------- *)
Definition value_post (s : bytes) (d : doc) (rest : bytes) : Prop :=
  s = render d ++ rest /\ doc_ok d = true /\ doc_canon d = true.

Lemma starts_with_sound : forall p s r, starts_with p s = Some r -> s = p ++ r.
Proof. induction p as [|a p IH]; intros s r H.
  - cbn [starts_with] in H. injection H as <-. reflexivity.
  - destruct s as [|b s]; [discriminate H|]. cbn [starts_with] in H. destruct (byte_eqb a b) eqn:E; [|discriminate H].
    beq_subst E. cbn [app]. f_equal. apply IH. exact H. Qed.

Lemma ref_elems_sound : forall rv, (forall s d rest, rv s = Some (d, rest) -> value_post s d rest) ->
  forall g a s acc d rest, ref_elems rv g a s acc = Some (d, rest) ->
  exists elems, elems <> [] /\ d = DArr [] (acc ++ elems) /\ render_ws a ++ s = render_elems elems ++ x5d :: rest /\
    forallb (fun e => doc_ok (snd (fst e))) elems = true /\ forallb (fun e => doc_canon (snd (fst e))) elems = true.
Proof. intros rv Hrv. induction g as [|g IH]; intros a s acc d rest H; [discriminate H|].
  rewrite ref_elems_S in H. destruct (rv s) as [[x s1]|] eqn:R; [|discriminate H].
  destruct (Hrv s x s1 R) as [Es [Ox Cx]].
  destruct (take_ws s1) as [b s2] eqn:T. destruct (take_ws_sound s1 b s2 T) as [Es1 _].
  destruct s2 as [|d0 s3]; [discriminate H|].
  destruct (byte_eqb d0 x5d) eqn:E1.
  - beq_subst E1. injection H as <- <-. exists [(a, x, b)]. split; [discriminate|]. split; [reflexivity|]. split.
    + subst. cbn [render_elems]. rewrite <- !app_assoc. reflexivity.
    + cbn [forallb snd fst]. rewrite Ox, Cx. split; reflexivity.
  - destruct (byte_eqb d0 x2c) eqn:E2; [|discriminate H]. beq_subst E2.
    destruct (take_ws s3) as [a' s4] eqn:T2. destruct (take_ws_sound s3 a' s4 T2) as [Es3 _].
    destruct (IH a' s4 (acc ++ [(a, x, b)]) d rest H) as [elems' [Hne [Ed [Er [Ok Cn]]]]].
    exists ((a, x, b) :: elems'). split; [discriminate|]. split; [|split].
    + rewrite Ed. rewrite <- app_assoc. reflexivity.
    + rewrite render_elems_cons. subst. rewrite <- !app_assoc. f_equal. f_equal. f_equal.
      destruct elems' as [|e' l']; [congruence|]. unfold elems_tail. cbn [app]. f_equal. exact Er.
    + cbn [forallb snd fst]. rewrite Ox, Cx, Ok, Cn. split; reflexivity. Qed.

Lemma ref_members_sound : forall rv, (forall s d rest, rv s = Some (d, rest) -> value_post s d rest) ->
  forall g a s acc d rest, ref_members rv g a s acc = Some (d, rest) ->
  exists ms, ms <> [] /\ d = DObj [] (acc ++ ms) /\ render_ws a ++ s = render_members ms ++ x7d :: rest /\
    forallb (fun m : ws * list sitem * ws * ws * doc * ws => let '(_, k, _, _, x, _) := m in sitems_ok k && doc_ok x) ms = true /\
    forallb (fun m : ws * list sitem * ws * ws * doc * ws => let '(_, k, _, _, x, _) := m in sitems_canon k && doc_canon x) ms = true.
Proof. intros rv Hrv. induction g as [|g IH]; intros a s acc d rest H; [discriminate H|].
  destruct s as [|q s0]; [discriminate H|]. rewrite ref_members_S in H.
  destruct (byte_eqb q x22) eqn:Eq; [|discriminate H]. beq_subst1 Eq. cbn [negb] in H.
  destruct (ref_string (S (length s0)) s0) as [[k s1]|] eqn:RS; [|discriminate H].
  destruct (ref_string_sound _ s0 k s1 RS) as [Es0 [Okk Ck]].
  destruct (take_ws s1) as [b s2] eqn:T1. destruct (take_ws_sound s1 b s2 T1) as [Es1 _].
  destruct s2 as [|col s3]; [discriminate H|].
  destruct (byte_eqb col x3a) eqn:Ec; [|discriminate H]. beq_subst1 Ec. cbn [negb] in H.
  destruct (take_ws s3) as [cws s4] eqn:T2. destruct (take_ws_sound s3 cws s4 T2) as [Es3 _].
  destruct (rv s4) as [[x s5]|] eqn:R; [|discriminate H].
  destruct (Hrv s4 x s5 R) as [Es4 [Ox Cx]].
  destruct (take_ws s5) as [e s6] eqn:T3. destruct (take_ws_sound s5 e s6 T3) as [Es5 _].
  destruct s6 as [|d0 s7]; [discriminate H|].
  assert (Etext : render_ws a ++ x22 :: s0 =
                  render_ws a ++ render_string k ++ render_ws b ++ x3a :: render_ws cws ++ render x ++ render_ws e ++ d0 :: s7).
  { f_equal. rewrite render_string_app. subst s0 s1 s3 s4 s5. reflexivity. }
  rewrite Etext. clear Etext.
  destruct (byte_eqb d0 x7d) eqn:E1.
  - beq_subst1 E1. injection H as <- <-. exists [(a, k, b, cws, x, e)]. split; [discriminate|]. split; [reflexivity|]. split.
    + cbn [render_members]. norm_app. reflexivity.
    + cbn [forallb]. rewrite Okk, Ck, Ox, Cx. split; reflexivity.
  - destruct (byte_eqb d0 x2c) eqn:E2; [|discriminate H]. beq_subst1 E2.
    destruct (take_ws s7) as [a' s8] eqn:T4. destruct (take_ws_sound s7 a' s8 T4) as [Es7 _].
    destruct (IH a' s8 (acc ++ [(a, k, b, cws, x, e)]) d rest H) as [ms' [Hne [Ed [Er [Ok Cn]]]]].
    exists ((a, k, b, cws, x, e) :: ms'). split; [discriminate|]. split; [|split].
    + rewrite Ed. rewrite <- app_assoc. reflexivity.
    + rewrite render_members_cons. norm_app. do 6 f_equal.
      destruct ms' as [|m' l']; [congruence|]. unfold members_tail. cbn [app]. f_equal. rewrite <- Er. subst. reflexivity.
    + cbn [forallb]. rewrite Okk, Ck, Ox, Cx, Ok, Cn. split; reflexivity. Qed.

Lemma ref_sound_post : forall fuel s d rest, ref_value fuel s = Some (d, rest) -> value_post s d rest.
Proof. induction fuel as [|f IH]; intros s d rest H; [discriminate H|].
  destruct s as [|c t]; [rewrite ref_value_nil in H; discriminate H|].
  rewrite ref_value_cons in H.
  destruct (byte_eqb c x6e) eqn:E1.
  { destruct (starts_with (B"null") (c :: t)) as [r|] eqn:S1; [|discriminate H]. injection H as <- <-.
    apply starts_with_sound in S1. rewrite S1. repeat split. }
  destruct (byte_eqb c x74) eqn:E2.
  { destruct (starts_with (B"true") (c :: t)) as [r|] eqn:S1; [|discriminate H]. injection H as <- <-.
    apply starts_with_sound in S1. rewrite S1. repeat split. }
  destruct (byte_eqb c x66) eqn:E3.
  { destruct (starts_with (B"false") (c :: t)) as [r|] eqn:S1; [|discriminate H]. injection H as <- <-.
    apply starts_with_sound in S1. rewrite S1. repeat split. }
  destruct (byte_eqb c x22) eqn:E4.
  { beq_subst1 E4. destruct (ref_string (S (length t)) t) as [[is r]|] eqn:RS; [|discriminate H]. injection H as <- <-.
    destruct (ref_string_sound _ t is r RS) as [Et [Ok Cn]]. split; [|split].
    - cbn [render]. rewrite render_string_app. rewrite <- Et. reflexivity.
    - exact Ok.
    - exact Cn. }
  destruct (byte_eqb c x5b) eqn:E5.
  { beq_subst1 E5. destruct (take_ws t) as [w r0] eqn:T. destruct (take_ws_sound t w r0 T) as [Et _].
    destruct r0 as [|c0 r1]; [discriminate H|].
    destruct (byte_eqb c0 x5d) eqn:E6.
    - beq_subst1 E6. injection H as <- <-. split; [|split; reflexivity].
      rewrite render_arr_eq. rewrite Et. norm_app. reflexivity.
    - destruct (ref_elems_sound (ref_value f) IH _ w (c0 :: r1) [] d rest H) as [elems [Hne [Ed [Er [Ok Cn]]]]].
      cbn [app] in Ed. subst d. rewrite <- Et in Er. split; [|split].
      + rewrite render_arr_eq. destruct elems as [|e0 l0]; [congruence|]. rewrite Er. norm_app. reflexivity.
      + rewrite doc_ok_arr. exact Ok.
      + rewrite doc_canon_arr. rewrite Cn. destruct elems; reflexivity. }
  destruct (byte_eqb c x7b) eqn:E6.
  { beq_subst1 E6. destruct (take_ws t) as [w r0] eqn:T. destruct (take_ws_sound t w r0 T) as [Et _].
    destruct r0 as [|c0 r1]; [discriminate H|].
    destruct (byte_eqb c0 x7d) eqn:E7.
    - beq_subst1 E7. injection H as <- <-. split; [|split; reflexivity].
      rewrite render_obj_eq. rewrite Et. norm_app. reflexivity.
    - destruct (ref_members_sound (ref_value f) IH _ w (c0 :: r1) [] d rest H) as [ms [Hne [Ed [Er [Ok Cn]]]]].
      cbn [app] in Ed. subst d. rewrite <- Et in Er. split; [|split].
      + rewrite render_obj_eq. destruct ms as [|m0 l0]; [congruence|]. rewrite Er. norm_app. reflexivity.
      + rewrite doc_ok_obj. exact Ok.
      + rewrite doc_canon_obj. rewrite Cn. destruct ms; reflexivity. }
  destruct (ref_number (c :: t)) as [[n r]|] eqn:RN; [|discriminate H]. injection H as <- <-.
  destruct (ref_number_sound _ n r RN) as [En Ok]. split; [exact En|]. split; [exact Ok|reflexivity]. Qed.

Theorem ref_sound : forall fuel s d rest, ref_value fuel s = Some (d, rest) ->
  s = render d ++ rest /\ doc_ok d = true /\ doc_canon d = true.
Proof. exact ref_sound_post. Qed.

Lemma ref_parse_sound_ok : forall s a d b, ref_parse s = Some (a, d, b) ->
  render_text (a, d, b) = s /\ doc_ok d = true /\ doc_canon d = true.
Proof. intros s a d b H. unfold ref_parse in H.
  destruct (take_ws s) as [a0 s1] eqn:T1. destruct (take_ws_sound s a0 s1 T1) as [Es _].
  destruct (ref_value (S (length s1)) s1) as [[d0 s2]|] eqn:R; [|discriminate H].
  destruct (take_ws s2) as [b0 s3] eqn:T2. destruct (take_ws_sound s2 b0 s3 T2) as [Es2 _].
  destruct s3 as [|c3 s3]; [|discriminate H]. injection H as <- <- <-.
  destruct (ref_sound _ s1 d0 s2 R) as [Es1 [Ok Cn]]. split; [|split; assumption].
  unfold render_text. rewrite Es, Es1, Es2. rewrite app_nil_r. reflexivity. Qed.

Corollary ref_parse_sound : forall s t, ref_parse s = Some t -> render_text t = s.
Proof. intros s [[a d] b] H. apply (ref_parse_sound_ok s a d b H). Qed.

(* ---------- (V) validity = being the rendering of a well-formed derivation ---------- *)
Definition canon_hexd (h : hexd) : hexd := mkHex (hv h) (hupper h && (10 <=? hv h)).
Definition canon_hex4 (h : hex4) : hex4 := let '(a, b, c, d) := h in (canon_hexd a, canon_hexd b, canon_hexd c, canon_hexd d).
Definition canon_sitem (i : sitem) : sitem :=
  match i with
  | SU h => SU (canon_hex4 h)
  | SPair hi lo => SPair (canon_hex4 hi) (canon_hex4 lo)
  | SLone h => SLone (canon_hex4 h)
  | _ => i
  end.
Definition canon_slot {A} (w : ws) (l : list A) : ws := match l with [] => w | _ => [] end.
Fixpoint canon_doc (d : doc) : doc :=
  match d with
  | DStr s => DStr (map canon_sitem s)
  | DArr w elems => DArr (canon_slot w elems) (map (fun e : ws * doc * ws => let '(a, x, b) := e in (a, canon_doc x, b)) elems)
  | DObj w ms => DObj (canon_slot w ms)
                   (map (fun m : ws * list sitem * ws * ws * doc * ws =>
                           let '(a, k, b, c, x, e) := m in (a, map canon_sitem k, b, c, canon_doc x, e)) ms)
  | _ => d
  end.
Definition celem (e : ws * doc * ws) : ws * doc * ws := let '(a, x, b) := e in (a, canon_doc x, b).
Definition cmember (m : ws * list sitem * ws * ws * doc * ws) : ws * list sitem * ws * ws * doc * ws :=
  let '(a, k, b, c, x, e) := m in (a, map canon_sitem k, b, c, canon_doc x, e).
Lemma canon_doc_arr : forall w elems, canon_doc (DArr w elems) = DArr (canon_slot w elems) (map celem elems).
Proof. reflexivity. Qed.
Lemma canon_doc_obj : forall w ms, canon_doc (DObj w ms) = DObj (canon_slot w ms) (map cmember ms).
Proof. reflexivity. Qed.

Lemma canon_hexd_props : forall h, hexd_byte (canon_hexd h) = hexd_byte h /\ hv (canon_hexd h) = hv h /\
  hexd_ok (canon_hexd h) = hexd_ok h /\ hexd_canon (canon_hexd h) = true.
Proof. intros [v u]. unfold canon_hexd, hexd_byte, hexd_ok, hexd_canon. cbn [hv hupper].
  split; [|split; [reflexivity|split; [reflexivity|]]].
  - destruct (v <? 10) eqn:E; [reflexivity|]. replace (10 <=? v) with true by lia. rewrite andb_true_r. reflexivity.
  - destruct u; cbn [andb negb orb]; [|reflexivity]. destruct (10 <=? v); reflexivity. Qed.

Lemma canon_hex4_props : forall h, hex4_bytes (canon_hex4 h) = hex4_bytes h /\ hex4_val (canon_hex4 h) = hex4_val h /\
  hex4_ok (canon_hex4 h) = hex4_ok h /\ hex4_canon (canon_hex4 h) = true.
Proof. intros [[[a b] c] d]. cbn [canon_hex4 hex4_bytes hex4_val hex4_ok hex4_canon].
  destruct (canon_hexd_props a) as [A1 [A2 [A3 A4]]]. destruct (canon_hexd_props b) as [B1 [B2 [B3 B4]]].
  destruct (canon_hexd_props c) as [C1 [C2 [C3 C4]]]. destruct (canon_hexd_props d) as [D1 [D2 [D3 D4]]].
  rewrite A1, A2, A3, A4, B1, B2, B3, B4, C1, C2, C3, C4, D1, D2, D3, D4. repeat split; reflexivity. Qed.

Lemma canon_sitem_props : forall i, render_sitem (canon_sitem i) = render_sitem i /\ sitem_ok (canon_sitem i) = sitem_ok i /\
  sitem_canon (canon_sitem i) = true.
Proof. intros [r | e | h | hi lo | h]; cbn [canon_sitem render_sitem sitem_ok sitem_canon]; try (repeat split; reflexivity).
  - destruct (canon_hex4_props h) as [H1 [H2 [H3 H4]]]. rewrite H1, H2, H3, H4. repeat split; reflexivity.
  - destruct (canon_hex4_props hi) as [H1 [H2 [H3 H4]]]. destruct (canon_hex4_props lo) as [L1 [L2 [L3 L4]]].
    rewrite H1, H2, H3, H4, L1, L2, L3, L4. repeat split; reflexivity.
  - destruct (canon_hex4_props h) as [H1 [H2 [H3 H4]]]. rewrite H1, H2, H3, H4. repeat split; reflexivity. Qed.

Lemma canon_sitems_render : forall s, flat_map render_sitem (map canon_sitem s) = flat_map render_sitem s.
Proof. induction s as [|i t IH]; [reflexivity|]. cbn [map flat_map]. rewrite IH. destruct (canon_sitem_props i) as [-> _]. reflexivity. Qed.
Lemma canon_sitems_string : forall s, render_string (map canon_sitem s) = render_string s.
Proof. intros s. unfold render_string. rewrite canon_sitems_render. reflexivity. Qed.
Lemma canon_sitems_canon : forall s, sitems_canon (map canon_sitem s) = true.
Proof. induction s as [|i t IH]; [reflexivity|]. unfold sitems_canon in *. cbn [map forallb]. rewrite IH.
  destruct (canon_sitem_props i) as [_ [_ ->]]. reflexivity. Qed.
Lemma canon_sitems_ok : forall s, sitems_ok (map canon_sitem s) = sitems_ok s.
Proof. induction s as [|i t IH]; [reflexivity|]. cbn [map sitems_ok]. rewrite IH.
  destruct (canon_sitem_props i) as [_ [-> _]]. f_equal.
  destruct i as [r | e | h | hi lo | h]; try reflexivity.
  destruct t as [|[r | e | h' | hi lo | l] t']; try reflexivity.
  cbn [map canon_sitem]. destruct (canon_hex4_props h) as [_ [-> _]]. destruct (canon_hex4_props l) as [_ [-> _]]. reflexivity. Qed.

Lemma doc_ind' : forall (P : doc -> Prop), P DNull -> P DTrue -> P DFalse -> (forall n, P (DNum n)) -> (forall s, P (DStr s)) ->
  (forall w elems, Forall (fun e : ws * doc * ws => P (snd (fst e))) elems -> P (DArr w elems)) ->
  (forall w ms, Forall (fun m : ws * list sitem * ws * ws * doc * ws => let '(_, _, _, _, x, _) := m in P x) ms -> P (DObj w ms)) ->
  forall d, P d.
Proof. intros P H1 H2 H3 H4 H5 H6 H7. fix IH 1. intros [ | | | n | s | w elems | w ms].
  - exact H1.
  - exact H2.
  - exact H3.
  - apply H4.
  - apply H5.
  - apply H6. induction elems as [|[[a x] b] t IHt]; constructor; [apply IH | exact IHt].
  - apply H7. induction ms as [|[[[[[a k] b] c] x] e] t IHt]; constructor; [apply IH | exact IHt]. Qed.

Lemma canon_doc_render : forall d, render (canon_doc d) = render d.
Proof. apply doc_ind'; try reflexivity.
  - intros s. cbn [canon_doc render]. apply canon_sitems_string.
  - intros w elems F. rewrite canon_doc_arr. rewrite !render_arr_eq. f_equal. f_equal.
    assert (E : render_elems (map celem elems) = render_elems elems).
    { induction F as [|[[a x] b] t Hx Ht IHt]; [reflexivity|]. cbn [map celem]. rewrite !render_elems_cons.
      cbn [snd fst] in Hx. rewrite Hx. do 3 f_equal.
      destruct t as [|e t']; [reflexivity|]. unfold elems_tail. cbn [map] in *. rewrite IHt. reflexivity. }
    destruct elems as [|e t]; [reflexivity|]. cbn [map canon_slot] in *. exact E.
  - intros w ms F. rewrite canon_doc_obj. rewrite !render_obj_eq. f_equal. f_equal.
    assert (E : render_members (map cmember ms) = render_members ms).
    { induction F as [|[[[[[a k] b] c] x] e] t Hx Ht IHt]; [reflexivity|]. cbn [map cmember]. rewrite !render_members_cons.
      rewrite Hx. rewrite canon_sitems_string. do 6 f_equal.
      destruct t as [|m t']; [reflexivity|]. unfold members_tail. cbn [map] in *. rewrite IHt. reflexivity. }
    destruct ms as [|m t]; [reflexivity|]. cbn [map canon_slot] in *. exact E. Qed.

Lemma canon_doc_ok : forall d, doc_ok (canon_doc d) = doc_ok d.
Proof. apply doc_ind'; try reflexivity.
  - intros s. cbn [canon_doc doc_ok]. apply canon_sitems_ok.
  - intros w elems F. rewrite canon_doc_arr. rewrite !doc_ok_arr.
    induction F as [|[[a x] b] t Hx Ht IHt]; [reflexivity|]. cbn [map celem forallb snd fst] in *. rewrite Hx, IHt. reflexivity.
  - intros w ms F. rewrite canon_doc_obj. rewrite !doc_ok_obj.
    induction F as [|[[[[[a k] b] c] x] e] t Hx Ht IHt]; [reflexivity|]. cbn [map cmember forallb] in *.
    rewrite Hx, IHt, canon_sitems_ok. reflexivity. Qed.

Lemma canon_doc_canon : forall d, doc_canon (canon_doc d) = true.
Proof. apply doc_ind'; try reflexivity.
  - intros s. cbn [canon_doc doc_canon]. apply canon_sitems_canon.
  - intros w elems F. rewrite canon_doc_arr. rewrite doc_canon_arr. apply andb_true_iff. split.
    + destruct elems; reflexivity.
    + induction F as [|[[a x] b] t Hx Ht IHt]; [reflexivity|]. cbn [map celem forallb snd fst] in *. rewrite Hx, IHt. reflexivity.
  - intros w ms F. rewrite canon_doc_obj. rewrite doc_canon_obj. apply andb_true_iff. split.
    + destruct ms; reflexivity.
    + induction F as [|[[[[[a k] b] c] x] e] t Hx Ht IHt]; [reflexivity|]. cbn [map cmember forallb] in *.
      rewrite Hx, IHt, canon_sitems_canon. reflexivity. Qed.

Corollary json_valid_iff : forall s, json_valid s = true <-> exists a d b, doc_ok d = true /\ s = render_text (a, d, b).
Proof. intros s. unfold json_valid. split.
  - destruct (ref_parse s) as [[[a d] b]|] eqn:R; [|discriminate]. intros _.
    destruct (ref_parse_sound_ok s a d b R) as [E [Ok _]]. exists a, d, b. split; [exact Ok|symmetry; exact E].
  - intros [a [d [b [Ok ->]]]].
    assert (E : render_text (a, d, b) = render_text (a, canon_doc d, b)).
    { unfold render_text. rewrite canon_doc_render. reflexivity. }
    rewrite E. rewrite ref_parse_complete; [reflexivity | rewrite canon_doc_ok; exact Ok | apply canon_doc_canon]. Qed.

(* ---------- why the hypotheses are what they are (checked by computation) ---------- *)
(* 1. doc_ok alone does not fix the case flag of a DECIMAL hex digit (hexd_byte ignores it when hv < 10), so a derivation
      with hupper = true on such a digit renders the same text as the one with hupper = false, and the decoder returns the
      latter: canonicity of unused slots must include this flag (hexd_canon), not only the blanks of DArr / DObj. *)
Lemma hex_flag_counterexample :
  let d  := DStr [SU (mkHex 0 true,  mkHex 0 false, mkHex 4 false, mkHex 1 false)] in
  let d' := DStr [SU (mkHex 0 false, mkHex 0 false, mkHex 4 false, mkHex 1 false)] in
  doc_ok d = true /\ render d = render d' /\ ref_value 20 (render d ++ []) = Some (d', []).
Proof. vm_compute. repeat split. Qed.

(* 2. each clause of value_follow is needed (for an integer literal): a digit, '.', 'e', 'E' after "1" changes the result *)
Lemma value_follow_needed :
  let one := DNum (mkNum false [x31] None None) in
  ref_value 20 (render one ++ [x32]) <> Some (one, [x32]) /\
  ref_value 20 (render one ++ [x2e]) = None /\
  ref_value 20 (render one ++ [x65]) = None /\
  ref_value 20 (render one ++ [x45]) = None /\
  ref_value 20 (render one ++ [x2d]) = Some (one, [x2d]).
Proof. vm_compute. repeat split. discriminate. Qed.
