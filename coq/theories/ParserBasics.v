(* ParserBasics.v — structural theorems about the JSON parser of Json.v (plist / pobj):
   totality (enough fuel), consumption (suffix, line counter, UTF-8 well-formedness of the accepted text),
   error lines, extension of accepting runs / rejection of proper prefixes. *)
From Anytype Require Import Base FloatBits Value GoInt Utf8 Utf8Proofs GoUnquote Json.
From Coq Require Import ZifyBool.
Local Open Scope Z_scope.
Arguments plist : simpl never.  Arguments pobj : simpl never.

Fixpoint count_nl (s : bytes) : Z :=
  match s with [] => 0 | c :: t => (if byte_eqb c x0a then 1 else 0) + count_nl t end.
Definition is_suffix (t s : bytes) : Prop := exists p, s = p ++ t.

Section PB.
  Variable pfloat : bytes -> option Z.

  (* ================= one-step unfolding ================= *)

  Lemma plist_O : forall st acc buf inval s line, plist pfloat O st acc buf inval s line = PFuel.
  Proof. reflexivity. Qed.
  Lemma pobj_O : forall st acc key buf inval s line, pobj pfloat O st acc key buf inval s line = PFuel.
  Proof. reflexivity. Qed.

  Lemma plist_S : forall f st acc buf inval s line,
    plist pfloat (S f) st acc buf inval s line =
        match s with
        | [] => PErr EEnd []
        | _ =>
            let '(r, n) := decode_rune s in
            if Nat.eqb n 0 || ((r =? rune_error) && Nat.eqb n 1) then PErr EUtf8 s
            else
              let rest := skipn n s in
              let line := if r =? 10 then line + 1 else line in
              match st with
              | LVal =>
                  if is_space r then plist pfloat f LVal acc buf inval rest line
                  else if negb inval && (r =? 34) then plist pfloat f LValString acc buf inval rest line
                  else if negb inval && (r =? 123) then
                    match pobj pfloat f OKeyStart [] [] [] false rest line with
                    | POk o rest' line' => plist pfloat f LVal (acc ++ [o]) buf inval rest' line'
                    | other => other
                    end
                  else if negb inval && (r =? 91) then
                    match plist pfloat f LVal [] [] false rest line with
                    | POk l rest' line' => plist pfloat f LVal (acc ++ [l]) buf inval rest' line'
                    | other => other
                    end
                  else if (r =? 44) || (r =? 93) then
                    match (match buf with
                           | [] => inl (acc, buf, inval)
                           | _ => match parse_field pfloat buf line with
                                  | inl v => inl (acc ++ [v], [], false)
                                  | inr e => inr e
                                  end
                           end) with
                    | inr e => PErr e s
                    | inl (acc', buf', inval') =>
                        if r =? 93 then POk (VList acc') rest line else plist pfloat f LVal acc' buf' inval' rest line
                    end
                  else plist pfloat f LVal acc (buf ++ encode_rune r) true rest line
              | LValString =>
                  if r =? 92 then plist pfloat f LValEscape acc buf inval rest line
                  else if r =? 34 then plist pfloat f LAfterString (acc ++ [VStr (unescape buf)]) [] inval rest line
                  else plist pfloat f LValString acc (buf ++ encode_rune r) inval rest line
              | LValEscape => plist pfloat f LValString acc (buf ++ x5c :: encode_rune r) inval rest line
              | LAfterString =>
                  if r =? 44 then plist pfloat f LVal acc buf inval rest line
                  else if r =? 93 then POk (VList acc) rest line
                  else plist pfloat f LAfterString acc buf inval rest line
              end
        end.
  Proof. intros f st acc buf inval s line. destruct s; reflexivity. Qed.

  Lemma pobj_S : forall f st acc key buf inval s line,
    pobj pfloat (S f) st acc key buf inval s line =
        match s with
        | [] => PErr EEnd []
        | _ =>
            let '(r, n) := decode_rune s in
            if Nat.eqb n 0 || ((r =? rune_error) && Nat.eqb n 1) then PErr EUtf8 s
            else
              let rest := skipn n s in
              let line := if r =? 10 then line + 1 else line in
              match st with
              | OKeyStart =>
                  if is_space r then pobj pfloat f OKeyStart acc key buf inval rest line
                  else if r =? 125 then POk (VObj acc) rest line
                  else if r =? 34 then pobj pfloat f OKey acc [] buf inval rest line
                  else PErr (EChar ExpQuote r line) s
              | OKey =>
                  if r =? 34 then pobj pfloat f OAfterKey acc key buf inval rest line
                  else if r =? 92 then pobj pfloat f OKeyEscape acc key buf inval rest line
                  else pobj pfloat f OKey acc (key ++ encode_rune r) buf inval rest line
              | OKeyEscape => pobj pfloat f OKey acc (key ++ x5c :: encode_rune r) buf inval rest line
              | OAfterKey =>
                  if is_space r then pobj pfloat f OAfterKey acc key buf inval rest line
                  else if negb (r =? 58) then PErr (EChar ExpColon r line) s
                  else pobj pfloat f OVal acc (unescape key) [] false rest line
              | OVal =>
                  if is_space r then pobj pfloat f OVal acc key buf inval rest line
                  else if negb inval && (r =? 34) then pobj pfloat f OValString acc key buf inval rest line
                  else if negb inval && (r =? 123) then
                    match pobj pfloat f OKeyStart [] [] [] false rest line with
                    | POk o rest' line' => pobj pfloat f OAfterVal (aset key o acc) key buf inval rest' line'
                    | other => other
                    end
                  else if negb inval && (r =? 91) then
                    match plist pfloat f LVal [] [] false rest line with
                    | POk l rest' line' => pobj pfloat f OAfterVal (aset key l acc) key buf inval rest' line'
                    | other => other
                    end
                  else if (r =? 44) || (r =? 125) then
                    match (match buf with
                           | [] => inl acc
                           | _ => match parse_field pfloat buf line with
                                  | inl v => inl (aset key v acc)
                                  | inr e => inr e
                                  end
                           end) with
                    | inr e => PErr e s
                    | inl acc' => if r =? 44 then pobj pfloat f OKeyStart acc' key buf inval rest line else POk (VObj acc') rest line
                    end
                  else pobj pfloat f OVal acc key (buf ++ encode_rune r) true rest line
              | OAfterVal =>
                  if is_space r then pobj pfloat f OAfterVal acc key buf inval rest line
                  else if r =? 44 then pobj pfloat f OKeyStart acc key buf inval rest line
                  else if r =? 125 then POk (VObj acc) rest line
                  else if r =? 34 then pobj pfloat f OKey acc [] buf inval rest line
                  else PErr (EChar ExpCommaBrace r line) s
              | OValString =>
                  if r =? 92 then pobj pfloat f OValEscape acc key buf inval rest line
                  else if r =? 34 then pobj pfloat f OAfterString (aset key (VStr (unescape buf)) acc) key buf inval rest line
                  else pobj pfloat f OValString acc key (buf ++ encode_rune r) inval rest line
              | OValEscape => pobj pfloat f OValString acc key (buf ++ x5c :: encode_rune r) inval rest line
              | OAfterString =>
                  if r =? 44 then pobj pfloat f OKeyStart acc key buf inval rest line
                  else if r =? 125 then POk (VObj acc) rest line
                  else pobj pfloat f OAfterString acc key buf inval rest line
              end
        end.
  Proof. intros f st acc key buf inval s line. destruct s; reflexivity. Qed.

  (* a sample per-state step lemma in direct style (the general ones are mrun_S / mrun_rune / mrun_step below) *)
  Lemma plist_val_space : forall f acc buf inval s line r n,
    decode_rune s = (r, n) -> n <> 0%nat -> ((r =? rune_error) && Nat.eqb n 1) = false -> is_space r = true ->
    plist pfloat (S f) LVal acc buf inval s line =
    plist pfloat f LVal acc buf inval (skipn n s) (if r =? 10 then line + 1 else line).
  Proof. intros f acc buf inval s line r n D Hn T Hs. rewrite plist_S.
    destruct s as [|b t]; [cbn [decode_rune] in D; injection D as _ D; congruence|].
    rewrite D. rewrite T. apply Nat.eqb_neq in Hn. rewrite Hn. cbn [orb]. cbv zeta. rewrite Hs. reflexivity. Qed.

  (* ================= a uniform view of the two machines ================= *)

  (* a machine configuration (which machine, its state and registers) *)
  Inductive mach :=
  | ML (st : lstate) (acc : list val) (buf : bytes) (inval : bool)
  | MO (st : ostate) (acc : list (bytes * val)) (key buf : bytes) (inval : bool).

  Definition mrun (f : nat) (m : mach) (s : bytes) (line : Z) : pres :=
    match m with
    | ML st acc buf inval => plist pfloat f st acc buf inval s line
    | MO st acc key buf inval => pobj pfloat f st acc key buf inval s line
    end.

  (* what one iteration does after reading the rune r (line counter already updated) *)
  Inductive code :=
  | CGo (m : mach)                          (* continue on the rest *)
  | CNest (m : mach) (k : val -> mach)      (* parse a nested container on the rest, then continue *)
  | CRet (v : val)                          (* closing bracket: return *)
  | CFail (e : perr).                       (* error at the current rune *)

  Definition crun (f : nat) (c : code) (s rest : bytes) (line : Z) : pres :=
    match c with
    | CGo m => mrun f m rest line
    | CNest m k => match mrun f m rest line with
                   | POk o rest' line' => mrun f (k o) rest' line'
                   | other => other
                   end
    | CRet v => POk v rest line
    | CFail e => PErr e s
    end.

  Definition next (m : mach) (r : Z) (line : Z) : code :=
    match m with
    | ML st acc buf inval =>
        match st with
        | LVal =>
            if is_space r then CGo (ML LVal acc buf inval)
            else if negb inval && (r =? 34) then CGo (ML LValString acc buf inval)
            else if negb inval && (r =? 123) then
              CNest (MO OKeyStart [] [] [] false) (fun o => ML LVal (acc ++ [o]) buf inval)
            else if negb inval && (r =? 91) then
              CNest (ML LVal [] [] false) (fun l => ML LVal (acc ++ [l]) buf inval)
            else if (r =? 44) || (r =? 93) then
              match (match buf with
                     | [] => inl (acc, buf, inval)
                     | _ => match parse_field pfloat buf line with
                            | inl v => inl (acc ++ [v], [], false)
                            | inr e => inr e
                            end
                     end) with
              | inr e => CFail e
              | inl (acc', buf', inval') =>
                  if r =? 93 then CRet (VList acc') else CGo (ML LVal acc' buf' inval')
              end
            else CGo (ML LVal acc (buf ++ encode_rune r) true)
        | LValString =>
            if r =? 92 then CGo (ML LValEscape acc buf inval)
            else if r =? 34 then CGo (ML LAfterString (acc ++ [VStr (unescape buf)]) [] inval)
            else CGo (ML LValString acc (buf ++ encode_rune r) inval)
        | LValEscape => CGo (ML LValString acc (buf ++ x5c :: encode_rune r) inval)
        | LAfterString =>
            if r =? 44 then CGo (ML LVal acc buf inval)
            else if r =? 93 then CRet (VList acc)
            else CGo (ML LAfterString acc buf inval)
        end
    | MO st acc key buf inval =>
        match st with
        | OKeyStart =>
            if is_space r then CGo (MO OKeyStart acc key buf inval)
            else if r =? 125 then CRet (VObj acc)
            else if r =? 34 then CGo (MO OKey acc [] buf inval)
            else CFail (EChar ExpQuote r line)
        | OKey =>
            if r =? 34 then CGo (MO OAfterKey acc key buf inval)
            else if r =? 92 then CGo (MO OKeyEscape acc key buf inval)
            else CGo (MO OKey acc (key ++ encode_rune r) buf inval)
        | OKeyEscape => CGo (MO OKey acc (key ++ x5c :: encode_rune r) buf inval)
        | OAfterKey =>
            if is_space r then CGo (MO OAfterKey acc key buf inval)
            else if negb (r =? 58) then CFail (EChar ExpColon r line)
            else CGo (MO OVal acc (unescape key) [] false)
        | OVal =>
            if is_space r then CGo (MO OVal acc key buf inval)
            else if negb inval && (r =? 34) then CGo (MO OValString acc key buf inval)
            else if negb inval && (r =? 123) then
              CNest (MO OKeyStart [] [] [] false) (fun o => MO OAfterVal (aset key o acc) key buf inval)
            else if negb inval && (r =? 91) then
              CNest (ML LVal [] [] false) (fun l => MO OAfterVal (aset key l acc) key buf inval)
            else if (r =? 44) || (r =? 125) then
              match (match buf with
                     | [] => inl acc
                     | _ => match parse_field pfloat buf line with
                            | inl v => inl (aset key v acc)
                            | inr e => inr e
                            end
                     end) with
              | inr e => CFail e
              | inl acc' => if r =? 44 then CGo (MO OKeyStart acc' key buf inval) else CRet (VObj acc')
              end
            else CGo (MO OVal acc key (buf ++ encode_rune r) true)
        | OAfterVal =>
            if is_space r then CGo (MO OAfterVal acc key buf inval)
            else if r =? 44 then CGo (MO OKeyStart acc key buf inval)
            else if r =? 125 then CRet (VObj acc)
            else if r =? 34 then CGo (MO OKey acc [] buf inval)
            else CFail (EChar ExpCommaBrace r line)
        | OValString =>
            if r =? 92 then CGo (MO OValEscape acc key buf inval)
            else if r =? 34 then CGo (MO OAfterString (aset key (VStr (unescape buf)) acc) key buf inval)
            else CGo (MO OValString acc key (buf ++ encode_rune r) inval)
        | OValEscape => CGo (MO OValString acc key (buf ++ x5c :: encode_rune r) inval)
        | OAfterString =>
            if r =? 44 then CGo (MO OKeyStart acc key buf inval)
            else if r =? 125 then CRet (VObj acc)
            else CGo (MO OAfterString acc key buf inval)
        end
    end.

  Definition nl (r : Z) (line : Z) : Z := if r =? 10 then line + 1 else line.

  Ltac split_ifs :=
    repeat match goal with
           | |- context [match ?b with [] => _ | _ :: _ => _ end] => destruct b
           | |- context [match parse_field ?p ?b ?l with inl _ => _ | inr _ => _ end] => destruct (parse_field p b l)
           | |- context [if ?c then _ else _] => destruct c
           end.

  Lemma mrun_O : forall m s line, mrun O m s line = PFuel.
  Proof. intros [st acc buf inval | st acc key buf inval] s line; reflexivity. Qed.

  Lemma mrun_S : forall f m s line,
    mrun (S f) m s line =
    match s with
    | [] => PErr EEnd []
    | _ => let '(r, n) := decode_rune s in
           if Nat.eqb n 0 || ((r =? rune_error) && Nat.eqb n 1) then PErr EUtf8 s
           else crun f (next m r (nl r line)) s (skipn n s) (nl r line)
    end.
  Proof.
    intros f m s line.
    destruct m as [st acc buf inval | st acc key buf inval]; cbn [mrun];
      [rewrite plist_S | rewrite pobj_S];
      (destruct s as [|b s']; [reflexivity|]);
      destruct (decode_rune (b :: s')) as [r n];
      (destruct (Nat.eqb n 0 || ((r =? rune_error) && Nat.eqb n 1)); [reflexivity|]);
      cbv zeta; fold (nl r line);
      generalize (nl r line); intros line1;
      generalize (skipn n (b :: s')); intros rest;
      generalize (b :: s'); intros s;
      destruct st; cbn [next]; split_ifs; reflexivity.
  Qed.

  (* ================= newline counting ================= *)

  Lemma count_nl_app : forall a b, count_nl (a ++ b) = count_nl a + count_nl b.
  Proof. induction a as [|c a IH]; intros b; [reflexivity|]. cbn [app count_nl]. rewrite IH. lia. Qed.

  Lemma count_nl_nonneg : forall a, 0 <= count_nl a.
  Proof. induction a as [|c a IH]; cbn [count_nl]; [lia|]. destruct (byte_eqb c x0a); lia. Qed.

  Lemma count_nl_high : forall a, Forall (fun b => 128 <= bZ b) a -> count_nl a = 0.
  Proof. induction a as [|c a IH]; intros H; [reflexivity|].
    inversion H as [|c' a' Hc Ha]; subst. cbn [count_nl]. rewrite (IH Ha).
    destruct (byte_eqb c x0a) eqn:E; [|reflexivity].
    apply byte_eqb_eq in E. subst c. change (bZ x0a) with 10 in Hc. lia. Qed.

  Lemma count_nl_encode : forall r, valid_rune r = true -> count_nl (encode_rune r) = if r =? 10 then 1 else 0.
  Proof. intros r V. destruct (Z_lt_le_dec r 128) as [H | H].
    - apply valid_rune_range in V. rewrite encode_rune_1 by lia. cbn [count_nl].
      destruct (r =? 10) eqn:E.
      + assert (r = 10) by lia. subst r. reflexivity.
      + destruct (byte_eqb (byte_of_Z r) x0a) eqn:B; [|reflexivity].
        apply byte_eqb_eq in B. apply (f_equal bZ) in B. rewrite bZ_byte_of_Z in B by lia.
        change (bZ x0a) with 10 in B. lia.
    - rewrite count_nl_high by (apply encode_rune_nonascii_bytes; [exact V|lia]).
      destruct (r =? 10) eqn:E; [lia|reflexivity]. Qed.

  Lemma nl_count : forall r line, valid_rune r = true -> nl r line = line + count_nl (encode_rune r).
  Proof. intros r line V. rewrite count_nl_encode by exact V. unfold nl. destruct (r =? 10); lia. Qed.

  (* ================= the step, on a well-formed head rune ================= *)

  Lemma mrun_nil : forall f m line, mrun (S f) m [] line = PErr EEnd [].
  Proof. intros f m line. rewrite mrun_S. reflexivity. Qed.

  Lemma mrun_rune : forall f m r rest line, valid_rune r = true ->
    mrun (S f) m (encode_rune r ++ rest) line =
    crun f (next m r (nl r line)) (encode_rune r ++ rest) rest (nl r line).
  Proof. intros f m r rest line V. rewrite mrun_S.
    pose proof (decode_encode r rest V) as D.
    pose proof (skipn_length_app (encode_rune r) rest) as K.
    pose proof (encode_rune_length r) as L.
    pose proof (encode_rune_not_error1 r V) as T.
    destruct (encode_rune r ++ rest) as [|b t] eqn:E.
    { apply app_eq_nil in E. destruct E as [E _]. exfalso. exact (encode_rune_nonnil r E). }
    rewrite D. rewrite T.
    replace (Nat.eqb (length (encode_rune r)) 0) with false by (symmetry; apply Nat.eqb_neq; lia).
    cbn [orb]. rewrite K. reflexivity. Qed.

  (* complete case analysis of one iteration *)
  Lemma mrun_step : forall f m s line,
    (s = [] /\ mrun (S f) m s line = PErr EEnd []) \/
    (s <> [] /\ mrun (S f) m s line = PErr EUtf8 s) \/
    (exists r n rest, decode_rune s = (r, n) /\ valid_rune r = true /\ s = encode_rune r ++ rest /\
       length (encode_rune r) = n /\
       mrun (S f) m s line = crun f (next m r (nl r line)) s rest (nl r line)).
  Proof. intros f m s line. destruct s as [|b t].
    { left. split; [reflexivity|apply mrun_nil]. }
    right. destruct (decode_rune (b :: t)) as [r n] eqn:D.
    destruct (Nat.eqb n 0 || ((r =? rune_error) && Nat.eqb n 1)) eqn:T.
    - left. split; [discriminate|]. rewrite mrun_S. rewrite D. rewrite T. reflexivity.
    - right. apply orb_false_iff in T. destruct T as [T0 T1]. apply Nat.eqb_neq in T0.
      destruct (decode_ok_encode _ _ _ D T0 T1) as [V [_ [S' Ln]]].
      exists r, n, (skipn n (b :: t)). split; [reflexivity|]. split; [exact V|]. split; [exact S'|].
      split; [exact Ln|]. rewrite S' at 1 2. rewrite mrun_rune by exact V. rewrite <- S'. reflexivity. Qed.

  (* ================= (P2) consumption ================= *)

  Definition consumed (s : bytes) (line : Z) (rest : bytes) (line' : Z) : Prop :=
    exists used, s = used ++ rest /\ used <> [] /\ line' = line + count_nl used /\ utf8_valid used = true.

  Lemma consumed_rune : forall r rest line, valid_rune r = true ->
    consumed (encode_rune r ++ rest) line rest (nl r line).
  Proof. intros r rest line V. exists (encode_rune r). split; [reflexivity|]. split; [apply encode_rune_nonnil|].
    split; [apply nl_count; exact V|apply utf8_valid_encode_rune]. Qed.

  Lemma consumed_trans : forall a l b l' c l'', consumed a l b l' -> consumed b l' c l'' -> consumed a l c l''.
  Proof. intros a l b l' c l'' [u1 [E1 [N1 [L1 U1]]]] [u2 [E2 [N2 [L2 U2]]]].
    exists (u1 ++ u2). split; [rewrite <- app_assoc; congruence|]. split.
    { intros E. apply app_eq_nil in E. destruct E as [E _]. exact (N1 E). }
    split; [rewrite count_nl_app; lia|]. apply utf8_valid_app_true; assumption. Qed.

  Lemma consumed_length : forall s l rest l', consumed s l rest l' -> (length rest < length s)%nat.
  Proof. intros s l rest l' [u [E [N _]]]. subst s. rewrite app_length.
    destruct u as [|x u]; [congruence|]. cbn [length]. lia. Qed.

  Theorem mrun_consumes : forall fuel m s line v rest line',
    mrun fuel m s line = POk v rest line' -> consumed s line rest line'.
  Proof. induction fuel as [|f IH]; intros m s line v rest line' H.
    { rewrite mrun_O in H. discriminate H. }
    destruct (mrun_step f m s line) as [[_ E] | [[_ E] | [r [n [rest0 [D [V [S' [Ln E]]]]]]]]];
      rewrite E in H; try discriminate H.
    pose proof (consumed_rune r rest0 line V) as C0. rewrite <- S' in C0.
    destruct (next m r (nl r line)) as [m' | m' k | v' | e]; cbn [crun] in H.
    - apply (consumed_trans _ _ _ _ _ _ C0). exact (IH _ _ _ _ _ _ H).
    - destruct (mrun f m' rest0 (nl r line)) as [o rest1 line1 | e a |] eqn:N; try discriminate H.
      apply (consumed_trans _ _ _ _ _ _ C0). apply (consumed_trans _ _ _ _ _ _ (IH _ _ _ _ _ _ N)).
      exact (IH _ _ _ _ _ _ H).
    - injection H as _ <- <-. exact C0.
    - discriminate H. Qed.

  Theorem parse_consumes : forall fuel,
    (forall st acc buf inval s line v rest line',
        plist pfloat fuel st acc buf inval s line = POk v rest line' ->
        exists used, s = used ++ rest /\ used <> [] /\ line' = line + count_nl used /\ utf8_valid used = true) /\
    (forall st acc key buf inval s line v rest line',
        pobj pfloat fuel st acc key buf inval s line = POk v rest line' ->
        exists used, s = used ++ rest /\ used <> [] /\ line' = line + count_nl used /\ utf8_valid used = true).
  Proof. intros fuel. split.
    - intros st acc buf inval s line v rest line' H. exact (mrun_consumes fuel (ML st acc buf inval) _ _ _ _ _ H).
    - intros st acc key buf inval s line v rest line' H. exact (mrun_consumes fuel (MO st acc key buf inval) _ _ _ _ _ H). Qed.

  Corollary parse_suffix : forall fuel,
    (forall st acc buf inval s line v rest line',
        plist pfloat fuel st acc buf inval s line = POk v rest line' -> is_suffix rest s /\ (length rest < length s)%nat) /\
    (forall st acc key buf inval s line v rest line',
        pobj pfloat fuel st acc key buf inval s line = POk v rest line' -> is_suffix rest s /\ (length rest < length s)%nat).
  Proof. intros fuel. split.
    - intros st acc buf inval s line v rest line' H.
      pose proof (mrun_consumes fuel (ML st acc buf inval) _ _ _ _ _ H) as C. split; [|exact (consumed_length _ _ _ _ C)].
      destruct C as [u [E _]]. exists u. exact E.
    - intros st acc key buf inval s line v rest line' H.
      pose proof (mrun_consumes fuel (MO st acc key buf inval) _ _ _ _ _ H) as C. split; [|exact (consumed_length _ _ _ _ C)].
      destruct C as [u [E _]]. exists u. exact E. Qed.

  (* ================= (P1) totality ================= *)

  Theorem mrun_total : forall fuel m s line, (length s < fuel)%nat -> mrun fuel m s line <> PFuel.
  Proof. induction fuel as [|f IH]; intros m s line L; [lia|].
    destruct (mrun_step f m s line) as [[_ E] | [[_ E] | [r [n [rest0 [D [V [S' [Ln E]]]]]]]]];
      rewrite E; try discriminate.
    pose proof (consumed_length _ _ _ _ (consumed_rune r rest0 line V)) as L0. rewrite <- S' in L0.
    destruct (next m r (nl r line)) as [m' | m' k | v' | e]; cbn [crun]; try discriminate.
    - apply IH. lia.
    - destruct (mrun f m' rest0 (nl r line)) as [o rest1 line1 | e a |] eqn:N; try discriminate.
      + apply IH. apply mrun_consumes in N. apply consumed_length in N. lia.
      + exfalso. revert N. apply IH. lia. Qed.

  Theorem parse_total : forall fuel,
    (forall st acc buf inval s line, (length s < fuel)%nat -> plist pfloat fuel st acc buf inval s line <> PFuel) /\
    (forall st acc key buf inval s line, (length s < fuel)%nat -> pobj pfloat fuel st acc key buf inval s line <> PFuel).
  Proof. intros fuel. split.
    - intros st acc buf inval s line L. exact (mrun_total fuel (ML st acc buf inval) s line L).
    - intros st acc key buf inval s line L. exact (mrun_total fuel (MO st acc key buf inval) s line L). Qed.

  Corollary parse_list_top_total : forall s, parse_list_top pfloat s <> PFuel.
  Proof. intros s. unfold parse_list_top. destruct (find_byte x5b s 1) as [[rest line]|]; [|discriminate].
    apply (proj1 (parse_total (S (length rest)))). lia. Qed.

  Corollary parse_object_top_total : forall s, parse_object_top pfloat s <> PFuel.
  Proof. intros s. unfold parse_object_top. destruct (find_byte x7b s 1) as [[rest line]|]; [|discriminate].
    apply (proj2 (parse_total (S (length rest)))). lia. Qed.

  Corollary parse_file_total : forall c, parse_file pfloat c <> PFuel.
  Proof. intros [b|]; [apply parse_object_top_total|discriminate]. Qed.

  (* ================= find_byte ================= *)

  Lemma find_byte_spec : forall c s l t l', find_byte c s l = Some (t, l') ->
    exists pre, s = pre ++ c :: t /\ ~ In c pre /\ l' = l + count_nl pre.
  Proof. intros c. induction s as [|x s IH]; intros l t l' H; cbn [find_byte] in H; [discriminate H|].
    destruct (byte_eqb x c) eqn:E.
    - apply byte_eqb_eq in E. subst x. injection H as <- <-. exists []. split; [reflexivity|].
      split; [intros []|]. cbn [count_nl]. lia.
    - apply byte_eqb_neq in E. destruct (IH _ _ _ H) as [pre [E1 [N1 L1]]]. exists (x :: pre).
      split; [cbn [app]; congruence|]. split.
      + intros [X | X]; [exact (E X)|exact (N1 X)].
      + cbn [count_nl]. destruct (byte_eqb x x0a); lia. Qed.

  Lemma find_byte_none : forall c s l, find_byte c s l = None -> ~ In c s.
  Proof. intros c. induction s as [|x s IH]; intros l H; [intros []|]. cbn [find_byte] in H.
    destruct (byte_eqb x c) eqn:E; [discriminate H|]. apply byte_eqb_neq in E.
    intros [X | X]; [exact (E X)|exact (IH _ H X)]. Qed.

  Lemma find_byte_app : forall c s l t l' u, find_byte c s l = Some (t, l') ->
    find_byte c (s ++ u) l = Some (t ++ u, l').
  Proof. intros c. induction s as [|x s IH]; intros l t l' u H; cbn [find_byte] in H; [discriminate H|].
    cbn [app find_byte]. destruct (byte_eqb x c).
    - injection H as <- <-. reflexivity.
    - apply IH. exact H. Qed.

  (* (C04) the text between the root brackets of an accepted document is well-formed UTF-8 *)
  Corollary accepted_utf8 : forall s v rest line, parse_list_top pfloat s = POk v rest line ->
    exists pre used, s = pre ++ x5b :: used ++ rest /\ utf8_valid used = true /\ ~ In x5b pre /\
                     used <> [] /\ line = 1 + count_nl pre + count_nl used.
  Proof. intros s v rest line H. unfold parse_list_top in H.
    destruct (find_byte x5b s 1) as [[t l]|] eqn:F; [|discriminate H].
    destruct (find_byte_spec _ _ _ _ _ F) as [pre [E [N L]]].
    destruct (proj1 (parse_consumes _) _ _ _ _ _ _ _ _ _ H) as [used [E2 [N2 [L2 U2]]]].
    exists pre, used. split; [congruence|]. split; [exact U2|]. split; [exact N|]. split; [exact N2|lia]. Qed.

  Corollary accepted_utf8_obj : forall s v rest line, parse_object_top pfloat s = POk v rest line ->
    exists pre used, s = pre ++ x7b :: used ++ rest /\ utf8_valid used = true /\ ~ In x7b pre /\
                     used <> [] /\ line = 1 + count_nl pre + count_nl used.
  Proof. intros s v rest line H. unfold parse_object_top in H.
    destruct (find_byte x7b s 1) as [[t l]|] eqn:F; [|discriminate H].
    destruct (find_byte_spec _ _ _ _ _ F) as [pre [E [N L]]].
    destruct (proj2 (parse_consumes _) _ _ _ _ _ _ _ _ _ _ H) as [used [E2 [N2 [L2 U2]]]].
    exists pre, used. split; [congruence|]. split; [exact U2|]. split; [exact N|]. split; [exact N2|lia]. Qed.

  (* contrapositive: ill-formed UTF-8 between the first '[' and the end of the accepted container is rejected *)
  Corollary illformed_rejected : forall pre used rest v line, ~ In x5b pre -> utf8_valid used = false ->
    parse_list_top pfloat (pre ++ x5b :: used ++ rest) <> POk v rest line.
  Proof. intros pre used rest v line N U H.
    destruct (accepted_utf8 _ _ _ _ H) as [pre' [used' [E [U' [N' _]]]]].
    assert (P : pre = pre' /\ used ++ rest = used' ++ rest).
    { clear - E N N'. revert pre' E N'. induction pre as [|x pre IH]; intros [|y pre'] E N'; cbn [app] in E.
      - injection E as E. split; [reflexivity|exact E].
      - injection E as <- _. exfalso. apply N'. left. reflexivity.
      - injection E as -> _. exfalso. apply N. left. reflexivity.
      - injection E as -> E. destruct (IH (fun X => N (or_intror X)) pre' E (fun X => N' (or_intror X))) as [-> E'].
        split; [reflexivity|exact E']. }
    destruct P as [_ P]. apply app_inv_tail in P. congruence. Qed.

  (* ================= (P4) error lines ================= *)

  Definition err_ok (e : perr) (line : Z) (used at_rest : bytes) : Prop :=
    match e with
    | EChar _ got l => l = line + count_nl used /\
                       exists n, decode_rune at_rest = (got, n) /\ got <> 10 /\ is_space got = false
    | EValue tok l => l = line + count_nl used /\
                      exists c t, at_rest = c :: t /\ (c = x2c \/ c = x5d \/ c = x7d)
    | _ => True
    end.
  Definition errat (s : bytes) (line : Z) (e : perr) (at_rest : bytes) : Prop :=
    exists used, s = used ++ at_rest /\ err_ok e line used at_rest.

  Lemma errat_pre : forall s line rest line' e at_rest,
    consumed s line rest line' -> errat rest line' e at_rest -> errat s line e at_rest.
  Proof. intros s line rest line' e at_rest [u1 [E1 [_ [L1 _]]]] [u2 [E2 K]].
    exists (u1 ++ u2). split; [rewrite <- app_assoc; congruence|].
    destruct e as [ | | | ex got l | tok l | ]; cbn [err_ok] in *; try exact I.
    - destruct K as [K1 K2]. split; [rewrite count_nl_app; lia|exact K2].
    - destruct K as [K1 K2]. split; [rewrite count_nl_app; lia|exact K2]. Qed.

  Lemma parse_field_inr : forall tok l e, parse_field pfloat tok l = inr e -> e = EValue tok l.
  Proof. intros tok l e H. unfold parse_field in H.
    destruct (bytes_eqb tok (B "null")); [discriminate H|].
    destruct (pint0 tok); [discriminate H|]. destruct (pfloat tok); [discriminate H|].
    destruct (pbool tok); [discriminate H|]. injection H as <-. reflexivity. Qed.

  Lemma is_space_not_nl : forall r, is_space r = false -> r <> 10.
  Proof. intros r H E. subst r. discriminate H. Qed.

  Ltac split_ifs_in H :=
    repeat match type of H with
           | context [match ?b with [] => _ | _ :: _ => _ end] => destruct b
           | context [match parse_field ?p ?b ?l with inl _ => _ | inr _ => _ end] => destruct (parse_field p b l) eqn:?
           | context [if ?c then _ else _] => destruct c eqn:?
           end.

  (* the errors raised by an iteration itself *)
  Lemma next_fail : forall m r line e, next m r (nl r line) = CFail e ->
    match e with
    | EChar _ got l => got = r /\ l = line /\ r <> 10 /\ is_space r = false
    | EValue tok l => l = line /\ (r = 44 \/ r = 93 \/ r = 125)
    | _ => False
    end.
  Proof. intros m r line e H. remember (nl r line) as line1 eqn:Hl.
    destruct m as [st acc buf inval | st acc key buf inval]; destruct st; cbn [next] in H;
      split_ifs_in H; try discriminate H; injection H as <-;
      try match goal with Hp : parse_field _ _ _ = inr _ |- _ => apply parse_field_inr in Hp; subst end;
      try subst line1;
      (assert (Hn : r <> 10) by (first [apply is_space_not_nl; assumption | lia]));
      unfold nl; replace (r =? 10) with false by lia;
      repeat split; try assumption; try reflexivity; lia. Qed.

  Lemma errat_here : forall s line e, err_ok e line [] s -> errat s line e s.
  Proof. intros s line e K. exists []. split; [reflexivity|exact K]. Qed.

  Theorem mrun_error_line : forall fuel m s line e at_rest,
    mrun fuel m s line = PErr e at_rest -> errat s line e at_rest.
  Proof. induction fuel as [|f IH]; intros m s line e at_rest H.
    { rewrite mrun_O in H. discriminate H. }
    destruct (mrun_step f m s line) as [[Es E] | [[_ E] | [r [n [rest0 [D [V [S' [Ln E]]]]]]]]];
      rewrite E in H.
    - injection H as <- <-. subst s. apply errat_here. exact I.
    - injection H as <- <-. apply errat_here. exact I.
    - pose proof (consumed_rune r rest0 line V) as C0. rewrite <- S' in C0.
      destruct (next m r (nl r line)) as [m' | m' k | v' | e0] eqn:Nx; cbn [crun] in H.
      + exact (errat_pre _ _ _ _ _ _ C0 (IH _ _ _ _ _ H)).
      + destruct (mrun f m' rest0 (nl r line)) as [o rest1 line1 | e1 a |] eqn:N; try discriminate H.
        * exact (errat_pre _ _ _ _ _ _ C0 (errat_pre _ _ _ _ _ _ (mrun_consumes _ _ _ _ _ _ _ N) (IH _ _ _ _ _ H))).
        * injection H as <- <-. exact (errat_pre _ _ _ _ _ _ C0 (IH _ _ _ _ _ N)).
      + discriminate H.
      + injection H as <- <-. apply errat_here. apply next_fail in Nx.
        destruct e0 as [ | | | ex got l | tok l | ]; cbn [err_ok]; try exact I.
        * destruct Nx as [-> [-> [Hn Hs]]]. cbn [count_nl]. split; [lia|]. exists n. split; [exact D|].
          split; [exact Hn|exact Hs].
        * destruct Nx as [-> Hr]. cbn [count_nl]. split; [lia|]. rewrite S'.
          destruct Hr as [-> | [-> | ->]].
          -- exists x2c, rest0. split; [reflexivity|]. left. reflexivity.
          -- exists x5d, rest0. split; [reflexivity|]. right. left. reflexivity.
          -- exists x7d, rest0. split; [reflexivity|]. right. right. reflexivity. Qed.

  Theorem parse_error_line : forall fuel,
    (forall st acc buf inval s line e at_rest, plist pfloat fuel st acc buf inval s line = PErr e at_rest ->
        exists used, s = used ++ at_rest /\
          match e with
          | EChar _ got l => l = line + count_nl used /\
                             exists n, decode_rune at_rest = (got, n) /\ got <> 10 /\ is_space got = false
          | EValue tok l => l = line + count_nl used /\
                            exists c t, at_rest = c :: t /\ (c = x2c \/ c = x5d \/ c = x7d)
          | _ => True
          end) /\
    (forall st acc key buf inval s line e at_rest, pobj pfloat fuel st acc key buf inval s line = PErr e at_rest ->
        exists used, s = used ++ at_rest /\
          match e with
          | EChar _ got l => l = line + count_nl used /\
                             exists n, decode_rune at_rest = (got, n) /\ got <> 10 /\ is_space got = false
          | EValue tok l => l = line + count_nl used /\
                            exists c t, at_rest = c :: t /\ (c = x2c \/ c = x5d \/ c = x7d)
          | _ => True
          end).
  Proof. intros fuel. split.
    - intros st acc buf inval s line e at_rest H. exact (mrun_error_line fuel (ML st acc buf inval) _ _ _ _ H).
    - intros st acc key buf inval s line e at_rest H. exact (mrun_error_line fuel (MO st acc key buf inval) _ _ _ _ H). Qed.

  Lemma top_error_aux : forall c s t l e at_rest, find_byte c s 1 = Some (t, l) -> byte_eqb c x0a = false ->
    errat t l e at_rest ->
    exists used, s = used ++ at_rest /\ match e with EChar _ _ l | EValue _ l => l = 1 + count_nl used | _ => True end.
  Proof. intros c s t l e at_rest F Hc [u [E K]].
    destruct (find_byte_spec _ _ _ _ _ F) as [pre [E1 [_ L1]]].
    exists (pre ++ c :: u). split; [rewrite <- app_assoc; cbn [app]; congruence|].
    assert (Cn : count_nl (pre ++ c :: u) = count_nl pre + count_nl u).
    { rewrite count_nl_app. cbn [count_nl]. rewrite Hc. lia. }
    destruct e as [ | | | ex got l0 | tok l0 | ]; cbn [err_ok] in K; try exact I.
    - destruct K as [K _]. lia.
    - destruct K as [K _]. lia. Qed.

  (* (C20) *)
  Corollary top_error_line : forall s e at_rest, parse_list_top pfloat s = PErr e at_rest -> e <> EMissing ->
    exists used, s = used ++ at_rest /\ match e with EChar _ _ l | EValue _ l => l = 1 + count_nl used | _ => True end.
  Proof. intros s e at_rest H Hm. unfold parse_list_top in H.
    destruct (find_byte x5b s 1) as [[t l]|] eqn:F.
    - apply (top_error_aux x5b s t l e at_rest F); [reflexivity|].
      exact (mrun_error_line _ (ML LVal [] [] false) _ _ _ _ H).
    - injection H as <- _. congruence. Qed.

  Corollary top_error_line_obj : forall s e at_rest, parse_object_top pfloat s = PErr e at_rest -> e <> EMissing ->
    exists used, s = used ++ at_rest /\ match e with EChar _ _ l | EValue _ l => l = 1 + count_nl used | _ => True end.
  Proof. intros s e at_rest H Hm. unfold parse_object_top in H.
    destruct (find_byte x7b s 1) as [[t l]|] eqn:F.
    - apply (top_error_aux x7b s t l e at_rest F); [reflexivity|].
      exact (mrun_error_line _ (MO OKeyStart [] [] [] false) _ _ _ _ H).
    - injection H as <- _. congruence. Qed.

  (* ================= (P5) extension of accepting runs ================= *)

  Theorem mrun_extend : forall fuel m s line v rest line' t fuel',
    mrun fuel m s line = POk v rest line' -> (fuel <= fuel')%nat ->
    mrun fuel' m (s ++ t) line = POk v (rest ++ t) line'.
  Proof. induction fuel as [|f IH]; intros m s line v rest line' t fuel' H Lf.
    { rewrite mrun_O in H. discriminate H. }
    destruct fuel' as [|f']; [lia|].
    destruct (mrun_step f m s line) as [[_ E] | [[_ E] | [r [n [rest0 [D [V [S' [Ln E]]]]]]]]];
      rewrite E in H; try discriminate H.
    rewrite S'. rewrite <- app_assoc. rewrite mrun_rune by exact V.
    destruct (next m r (nl r line)) as [m' | m' k | v' | e0]; cbn [crun] in *.
    - apply (IH _ _ _ _ _ _ _ _ H). lia.
    - destruct (mrun f m' rest0 (nl r line)) as [o rest1 line1 | e1 a |] eqn:N; try discriminate H.
      rewrite (IH _ _ _ _ _ _ t f' N) by lia. apply (IH _ _ _ _ _ _ _ _ H). lia.
    - injection H as <- <- <-. reflexivity.
    - discriminate H. Qed.

  Theorem parse_extend : forall fuel,
    (forall st acc buf inval s line v rest line' t fuel',
        plist pfloat fuel st acc buf inval s line = POk v rest line' -> (fuel <= fuel')%nat ->
        plist pfloat fuel' st acc buf inval (s ++ t) line = POk v (rest ++ t) line') /\
    (forall st acc key buf inval s line v rest line' t fuel',
        pobj pfloat fuel st acc key buf inval s line = POk v rest line' -> (fuel <= fuel')%nat ->
        pobj pfloat fuel' st acc key buf inval (s ++ t) line = POk v (rest ++ t) line').
  Proof. intros fuel. split.
    - intros st acc buf inval s line v rest line' t fuel' H L.
      exact (mrun_extend fuel (ML st acc buf inval) _ _ _ _ _ t fuel' H L).
    - intros st acc key buf inval s line v rest line' t fuel' H L.
      exact (mrun_extend fuel (MO st acc key buf inval) _ _ _ _ _ t fuel' H L). Qed.

  (* fuel monotonicity (t = []) *)
  Corollary mrun_fuel_mono : forall fuel fuel' m s line v rest line',
    mrun fuel m s line = POk v rest line' -> (fuel <= fuel')%nat -> mrun fuel' m s line = POk v rest line'.
  Proof. intros fuel fuel' m s line v rest line' H L.
    pose proof (mrun_extend _ _ _ _ _ _ _ [] _ H L) as X. rewrite !app_nil_r in X. exact X. Qed.

  Corollary parse_list_top_extend : forall s t v rest line, parse_list_top pfloat s = POk v rest line ->
    parse_list_top pfloat (s ++ t) = POk v (rest ++ t) line.
  Proof. intros s t v rest line H. unfold parse_list_top in *.
    destruct (find_byte x5b s 1) as [[u l]|] eqn:F; [|discriminate H].
    rewrite (find_byte_app _ _ _ _ _ t F).
    apply (proj1 (parse_extend _) _ _ _ _ _ _ _ _ _ t _ H). rewrite app_length. lia. Qed.

  Corollary parse_object_top_extend : forall s t v rest line, parse_object_top pfloat s = POk v rest line ->
    parse_object_top pfloat (s ++ t) = POk v (rest ++ t) line.
  Proof. intros s t v rest line H. unfold parse_object_top in *.
    destruct (find_byte x7b s 1) as [[u l]|] eqn:F; [|discriminate H].
    rewrite (find_byte_app _ _ _ _ _ t F).
    apply (proj2 (parse_extend _) _ _ _ _ _ _ _ _ _ _ t _ H). rewrite app_length. lia. Qed.

  (* (C04) a proper prefix of a text accepted with nothing left over is not accepted *)
  Corollary proper_prefix_rejected : forall p t v l, t <> [] -> parse_list_top pfloat (p ++ t) = POk v [] l ->
    forall v' r' l', parse_list_top pfloat p <> POk v' r' l'.
  Proof. intros p t v l Ht H v' r' l' H'. rewrite (parse_list_top_extend _ t _ _ _ H') in H.
    injection H as _ H _. apply app_eq_nil in H. destruct H as [_ H]. exact (Ht H). Qed.

  Corollary proper_prefix_rejected_obj : forall p t v l, t <> [] -> parse_object_top pfloat (p ++ t) = POk v [] l ->
    forall v' r' l', parse_object_top pfloat p <> POk v' r' l'.
  Proof. intros p t v l Ht H v' r' l' H'. rewrite (parse_object_top_extend _ t _ _ _ H') in H.
    injection H as _ H _. apply app_eq_nil in H. destruct H as [_ H]. exact (Ht H). Qed.

End PB.
