(* FloatText.v — the clause F4 of the float-text contract ("the text of a finite float is not an integer literal for
   strconv.ParseInt(s, 0, 64)") follows from F2 ("the text is an RFC 8259 number") and the much simpler F5
   ("the 'e' format contains an 'e' or a '.'"):
   - in the 'f' branch [ser_float] itself guarantees a '.', which ParseInt rejects in every base;
   - in the 'e' branch a '.' is rejected likewise, and an 'e'/'E' inside a JSON number text is rejected because JSON syntax
     excludes the only context in which ParseInt reads 'e' as a digit (after the hex prefix "0x"). *)
From Anytype Require Import Base FloatBits GoInt GoIntProofs Json JsonDoc SerializeProofs.
From Coq Require Import ZifyBool.
Local Open Scope Z_scope.

(* ================= contains_byte is list membership ================= *)

Lemma contains_byte_In : forall c s, contains_byte c s = true <-> In c s.
Proof.
  intros c s. induction s as [|x t IH]; cbn [contains_byte In].
  - split; [discriminate | intros []].
  - rewrite orb_true_iff, IH, byte_eqb_eq. reflexivity.
Qed.

Lemma contains_byte_not_In : forall c s, contains_byte c s = false <-> ~ In c s.
Proof.
  intros c s. rewrite <- contains_byte_In. destruct (contains_byte c s); split; intros H; try reflexivity; try discriminate.
  exfalso. apply H. reflexivity.
Qed.

(* ================= a digit too large for the base makes the digit loop fail ================= *)

Lemma puint_loop_big : forall s base n us c d,
  In c s -> c <> x5f -> digit_val c = Some d -> base <= d ->
  exists e us', puint_loop base s n us = (inr e, us').
Proof.
  induction s as [|c0 t IH]; intros base n us c d Hin Hus Hdv Hge.
  - destruct Hin.
  - cbn [puint_loop]. destruct (byte_eqb c0 x5f) eqn:E0.
    + apply byte_eqb_eq in E0. subst c0.
      destruct Hin as [Heq | Hin]; [congruence|].
      eapply IH; eassumption.
    + destruct (digit_val c0) as [d0|] eqn:Ed; [|eauto].
      destruct (base <=? d0) eqn:E1; [eauto|].
      destruct (max_u64 / base + 1 <=? n) eqn:E2; [eauto|].
      destruct (max_u64 <? n * base + d0) eqn:E3; [eauto|].
      destruct Hin as [Heq | Hin].
      * exfalso. subst c0. rewrite Hdv in Ed. injection Ed as <-. apply Z.leb_gt in E1. lia.
      * eapply IH; eassumption.
Qed.

(* 'e' and 'E' are the digit fourteen *)
Lemma digit_val_exp : forall E, E = x65 \/ E = x45 -> digit_val E = Some 14 /\ E <> x5f.
Proof. intros E [-> | ->]; split; try (vm_compute; reflexivity); discriminate. Qed.

(* "0e…" / "0E…": the leading "0" selects base 8 (the letter is none of b, o, x) and the letter is not an octal digit *)
Lemma parse_uint0_zero_exp : forall E e, E = x65 \/ E = x45 -> parse_uint0 (x30 :: E :: e) = inr ESyntax.
Proof. intros E e [-> | ->]; destruct e as [|e0 e']; reflexivity. Qed.

(* integer part of a JSON number, then the exponent letter: never an unsigned integer literal with base prefix 0 *)
Lemma parse_uint0_int_exp : forall ip E e, int_part_ok ip = true -> (E = x65 \/ E = x45) ->
  exists err, parse_uint0 (ip ++ E :: e) = inr err.
Proof.
  intros ip E e Hip HE. destruct (int_part_ok_inv ip Hip) as (c & t & -> & Hc & Hall & Hnz).
  destruct (digit_val_exp E HE) as [Hdv Hus].
  destruct (byte_eqb c x30) eqn:E0.
  - apply byte_eqb_eq in E0. subst c. destruct t as [|c2 t2].
    + cbn [app]. exists ESyntax. apply parse_uint0_zero_exp. exact HE.
    + exfalso. apply Hnz; [discriminate | reflexivity].
  - assert (Hin : In E ((c :: t) ++ E :: e)) by (apply in_or_app; right; left; reflexivity).
    assert (Hge : 10 <= 14) by lia.
    destruct (puint_loop_big _ 10 0 false E 14 Hin Hus Hdv Hge) as (err & us' & He).
    exists err. cbn [app] in *. unfold parse_uint0. rewrite E0. cbv beta iota. rewrite He. reflexivity.
Qed.

(* an optional minus, a digit, anything: ParseInt hands the text after the sign to ParseUint *)
Lemma pint0_sign_body : forall (neg : bool) c t, JsonDoc.is_digit c = true ->
  (exists err, parse_uint0 (c :: t) = inr err) ->
  pint0 ((if neg then [x2d] else []) ++ c :: t) = None.
Proof.
  intros neg c t Hc [err He]. destruct neg; cbn [app]; unfold pint0.
  - change (byte_eqb x2d x2b) with false. change (byte_eqb x2d x2d) with true.
    cbv beta iota. rewrite He. reflexivity.
  - assert (E1 : byte_eqb c x2b = false).
    { apply byte_eqb_neq. intros ->. vm_compute in Hc. discriminate. }
    assert (E2 : byte_eqb c x2d = false).
    { apply byte_eqb_neq. intros ->. vm_compute in Hc. discriminate. }
    rewrite E1, E2. cbv beta iota. rewrite He. reflexivity.
Qed.

Lemma digit_not_exp : forall c, JsonDoc.is_digit c = true -> c <> x65 /\ c <> x45.
Proof. intros c H. split; intros ->; vm_compute in H; discriminate. Qed.

(* ================= (1) a JSON number text with an exponent letter is not an integer literal ================= *)

Theorem pint0_json_exp_none : forall s n,
  parse_num_text s = Some n -> (In x65 s \/ In x45 s) -> pint0 s = None.
Proof.
  intros s n P HE. destruct (parse_num_text_render s n P) as [R J].
  rewrite render_num_eq in R.
  unfold jnum_ok in J. apply andb_true_iff in J. destruct J as [J _].
  apply andb_true_iff in J. destruct J as [Jint _].
  destruct (int_part_ok_inv _ Jint) as (c1 & t1 & Eip & Hc1 & Hall & Hnz).
  (* the text after the optional sign *)
  set (body := n_int n ++ frac_text (n_frac n) ++ exp_text (n_exp n)) in R.
  assert (Ebody : body = c1 :: (t1 ++ frac_text (n_frac n) ++ exp_text (n_exp n))).
  { unfold body. rewrite Eip. reflexivity. }
  rewrite <- R. rewrite Ebody. apply pint0_sign_body; [exact Hc1|].
  rewrite <- Ebody. unfold body.
  destruct (n_frac n) as [f|] eqn:Efr.
  - (* a fraction: '.' is a digit in no base *)
    apply (parse_uint0_bad _ x2e); [|vm_compute; reflexivity|discriminate].
    apply in_or_app. right. apply in_or_app. left. left. reflexivity.
  - cbn [frac_text app].
    destruct (n_exp n) as [[[up sg] e]|] eqn:Eex.
    + cbn [exp_text].
      assert (HEl : (if up then x45 else x65) = x65 \/ (if up then x45 else x65) = x45).
      { destruct up; [right|left]; reflexivity. }
      destruct sg.
      * (* no exponent sign *)
        cbn [app]. apply parse_uint0_int_exp; [exact Jint | exact HEl].
      * (* '+' after the first character *)
        apply (parse_uint0_bad _ x2b); [|vm_compute; reflexivity|discriminate].
        apply in_or_app. right. right. left. reflexivity.
      * (* '-' after the first character *)
        apply (parse_uint0_bad _ x2d); [|vm_compute; reflexivity|discriminate].
        apply in_or_app. right. right. left. reflexivity.
    + (* no fraction, no exponent: only a minus and digits, so no exponent letter at all *)
      exfalso. unfold body in R. cbn [frac_text exp_text] in R.
      rewrite !app_nil_r in R. subst s.
      assert (K : forall c, In c ((if n_neg n then [x2d] else []) ++ n_int n) -> c <> x65 /\ c <> x45).
      { intros c Hin. apply in_app_or in Hin. destruct Hin as [Hin | Hin].
        - destruct (n_neg n); [|destruct Hin]. destruct Hin as [<- | []]. split; discriminate.
        - apply digit_not_exp. rewrite forallb_forall in Hall. apply Hall. exact Hin. }
      destruct HE as [HE | HE]; apply K in HE; destruct HE as [K1 K2]; congruence.
Qed.

(* the delicate texts, executed *)
Example pint0_exp_examples :
  pint0 (B"0e0") = None /\ pint0 (B"0E5") = None /\ pint0 (B"-0e1") = None /\ pint0 (B"1e21") = None /\
  pint0 (B"1E+21") = None /\ pint0 (B"-5e-324") = None /\ pint0 (B"1.5e300") = None /\
  (* 'e' IS a digit after the hex prefix, which is why the JSON-number hypothesis is needed *)
  pint0 (B"0xe") = Some 14 /\ pint0 (B"0x1e1") = Some 481 /\ parse_num_text (B"0xe") = None.
Proof. vm_compute. repeat split; reflexivity. Qed.

(* ================= (2) F4 from F2 and F5 ================= *)

Theorem ser_float_not_int : forall (fmt_e fmt_f : Z -> bytes),
  (forall b, is_finite b = true -> fbits_ok b = true -> exists n, parse_num_text (ser_float fmt_e fmt_f b) = Some n) ->
  (forall b, is_finite b = true -> fbits_ok b = true -> In x65 (fmt_e b) \/ In x2e (fmt_e b)) ->
  forall b, is_finite b = true -> fbits_ok b = true -> pint0 (ser_float fmt_e fmt_f b) = None.
Proof.
  intros fmt_e fmt_f F2 F5 b Hf Hb.
  destruct (F2 b Hf Hb) as [n P]. revert P. unfold ser_float. cbv zeta.
  destruct (fle f1e6 (fabs b) || (flt pzero (fabs b) && fle (fabs b) f1em6)) eqn:Ebr.
  - (* 'e' format *)
    intros P. destruct (F5 b Hf Hb) as [He | Hd].
    + apply (pint0_json_exp_none _ n P). left. exact He.
    + apply pint0_dot_none. exact Hd.
  - (* 'f' format, with the ".0" repair *)
    intros _. rewrite (finite_not_nan b Hf). cbn [negb andb].
    destruct (contains_byte x2e (fmt_f b)) eqn:Ec; cbn [negb].
    + apply pint0_dot_none. apply contains_byte_In. exact Ec.
    + apply pint0_dot_none. apply in_or_app. right. left. reflexivity.
Qed.

(* the same with F5 stated through the library's own [contains_byte] *)
Corollary ser_float_not_int_b : forall (fmt_e fmt_f : Z -> bytes),
  (forall b, is_finite b = true -> fbits_ok b = true -> exists n, parse_num_text (ser_float fmt_e fmt_f b) = Some n) ->
  (forall b, is_finite b = true -> fbits_ok b = true -> contains_byte x65 (fmt_e b) || contains_byte x2e (fmt_e b) = true) ->
  forall b, is_finite b = true -> fbits_ok b = true -> pint0 (ser_float fmt_e fmt_f b) = None.
Proof.
  intros fmt_e fmt_f F2 F5b. apply (ser_float_not_int fmt_e fmt_f F2).
  intros b Hf Hb. specialize (F5b b Hf Hb). apply orb_true_iff in F5b.
  destruct F5b as [H | H]; [left | right]; apply contains_byte_In; exact H.
Qed.

(* F5 does not follow from F2 and F4: a text can be a JSON number that ParseInt rejects only for its range *)
Example F5_independent :
  (exists n, parse_num_text (B"99999999999999999999") = Some n) /\ pint0 (B"99999999999999999999") = None /\
  ~ In x65 (B"99999999999999999999") /\ ~ In x2e (B"99999999999999999999").
Proof.
  split; [eexists; vm_compute; reflexivity|]. split; [vm_compute; reflexivity|].
  split; apply contains_byte_not_In; vm_compute; reflexivity.
Qed.

Print Assumptions pint0_json_exp_none.
Print Assumptions ser_float_not_int.
Print Assumptions ser_float_not_int_b.
