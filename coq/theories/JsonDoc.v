(* JsonDoc.v — RFC 8259 as a generative grammar WITH layout: a [doc] is a derivation (token spellings, whitespace slots),
   [render] its text, [denote] its meaning. "Valid JSON text" means: render of some well-formed doc.
   Also: a reference recursive-descent decoder [ref_parse] (shares no code with the library's parser model), the canonical
   derivation [doc_of] of a value, and the layout json.Indent produces ([relayout]). *)
From Anytype Require Import Base FloatBits Value GoInt Utf8 GoUnquote.
Local Open Scope Z_scope.

(* ---------- whitespace ---------- *)
Inductive wsc := WsSpace | WsTab | WsLF | WsCR.
Definition ws := list wsc.
Definition wsc_byte (c : wsc) : byte := match c with WsSpace => x20 | WsTab => x09 | WsLF => x0a | WsCR => x0d end.
Definition render_ws (w : ws) : bytes := map wsc_byte w.

(* ---------- strings ---------- *)
Inductive esc := EQuote | EBackslash | ESolidus | EB | EF | EN | ER | ET.
Definition esc_letter (e : esc) : byte :=
  match e with EQuote => x22 | EBackslash => x5c | ESolidus => x2f | EB => x62 | EF => x66 | EN => x6e | ER => x72 | ET => x74 end.
Definition esc_value (e : esc) : byte :=
  match e with EQuote => x22 | EBackslash => x5c | ESolidus => x2f | EB => x08 | EF => x0c | EN => x0a | ER => x0d | ET => x09 end.

(* a hex digit: value 0..15 and the case of a letter digit *)
Record hexd := mkHex { hv : Z; hupper : bool }.
Definition hexd_ok (h : hexd) : bool := (0 <=? hv h) && (hv h <? 16).
Definition hexd_byte (h : hexd) : byte :=
  if hv h <? 10 then byte_of_Z (48 + hv h) else if hupper h then byte_of_Z (55 + hv h) else byte_of_Z (87 + hv h).
Definition hex4 := (hexd * hexd * hexd * hexd)%type.
Definition hex4_ok (h : hex4) : bool := let '(a, b, c, d) := h in hexd_ok a && hexd_ok b && hexd_ok c && hexd_ok d.
Definition hex4_val (h : hex4) : Z := let '(a, b, c, d) := h in ((hv a * 16 + hv b) * 16 + hv c) * 16 + hv d.
Definition hex4_bytes (h : hex4) : bytes := let '(a, b, c, d) := h in [hexd_byte a; hexd_byte b; hexd_byte c; hexd_byte d].

Inductive sitem :=
| SChar (r : Z)                 (* an unescaped character: any scalar value except quotation mark, reverse solidus, < U+0020 *)
| SEsc (e : esc)                (* two-character escape *)
| SU (h : hex4)                 (* \uXXXX, not a surrogate *)
| SPair (hi lo : hex4)          (* \uD8xx\uDCxx *)
| SLone (h : hex4).             (* a lone surrogate escape: grammatical, but denotes no Unicode string *)

Definition is_high (z : Z) : bool := (55296 <=? z) && (z <? 56320).
Definition is_low (z : Z) : bool := (56320 <=? z) && (z <? 57344).

Definition sitem_ok (i : sitem) : bool :=
  match i with
  | SChar r => valid_rune r && (32 <=? r) && negb (r =? 34) && negb (r =? 92)
  | SEsc _ => true
  | SU h => hex4_ok h && negb (is_high (hex4_val h)) && negb (is_low (hex4_val h))
  | SPair hi lo => hex4_ok hi && hex4_ok lo && is_high (hex4_val hi) && is_low (hex4_val lo)
  | SLone h => hex4_ok h && (is_high (hex4_val h) || is_low (hex4_val h))
  end.
Definition render_sitem (i : sitem) : bytes :=
  match i with
  | SChar r => encode_rune r
  | SEsc e => [x5c; esc_letter e]
  | SU h => x5c :: x75 :: hex4_bytes h
  | SPair hi lo => x5c :: x75 :: hex4_bytes hi ++ x5c :: x75 :: hex4_bytes lo
  | SLone h => x5c :: x75 :: hex4_bytes h
  end.
(* the bytes a string item denotes; a lone surrogate denotes nothing *)
Definition denote_sitem (i : sitem) : option bytes :=
  match i with
  | SChar r => Some (encode_rune r)
  | SEsc e => Some [esc_value e]
  | SU h => Some (encode_rune (hex4_val h))
  | SPair hi lo => Some (encode_rune ((hex4_val hi - 55296) * 1024 + (hex4_val lo - 56320) + 65536))
  | SLone _ => None
  end.
Definition render_string (s : list sitem) : bytes := x22 :: flat_map render_sitem s ++ [x22].
Fixpoint denote_string (s : list sitem) : option bytes :=
  match s with
  | [] => Some []
  | i :: t => match denote_sitem i, denote_string t with Some a, Some b => Some (a ++ b) | _, _ => None end
  end.
(* a lone low surrogate directly after a lone high one would be a pair: excluded so that derivations are unambiguous *)
Fixpoint sitems_ok (s : list sitem) : bool :=
  match s with
  | [] => true
  | i :: t => sitem_ok i && sitems_ok t &&
              match i, t with
              | SLone h, SLone l :: _ => negb (is_high (hex4_val h) && is_low (hex4_val l))
              | _, _ => true
              end
  end.

(* ---------- numbers: optional minus, integer part without leading zero, optional fraction, optional exponent ---------- *)
Definition is_digit (b : byte) : bool := (48 <=? bZ b) && (bZ b <=? 57).
Inductive esign := SgNone | SgPlus | SgMinus.
Record jnum := mkNum { n_neg : bool; n_int : bytes; n_frac : option bytes; n_exp : option (bool * esign * bytes) (* upper-case E?, sign, digits *) }.
Definition digits_ok (d : bytes) : bool := match d with [] => false | _ => forallb is_digit d end.
Definition int_part_ok (d : bytes) : bool :=
  digits_ok d && match d with c :: _ :: _ => negb (byte_eqb c x30) | _ => true end.
Definition jnum_ok (n : jnum) : bool :=
  int_part_ok (n_int n) &&
  match n_frac n with Some f => digits_ok f | None => true end &&
  match n_exp n with Some (_, _, e) => digits_ok e | None => true end.
Definition render_num (n : jnum) : bytes :=
  (if n_neg n then [x2d] else []) ++ n_int n ++
  match n_frac n with Some f => x2e :: f | None => [] end ++
  match n_exp n with
  | Some (up, sg, e) => (if up then x45 else x65) :: match sg with SgNone => [] | SgPlus => [x2b] | SgMinus => [x2d] end ++ e
  | None => []
  end.
Fixpoint digits_value (d : bytes) (acc : Z) : Z := match d with [] => acc | c :: t => digits_value t (acc * 10 + (bZ c - 48)) end.

(* ---------- documents ---------- *)
Inductive doc : Type :=
| DNull | DTrue | DFalse
| DNum (n : jnum)
| DStr (s : list sitem)
| DArr (w : ws) (elems : list (ws * doc * ws))                          (* w: the blanks of an empty array *)
| DObj (w : ws) (members : list (ws * list sitem * ws * ws * doc * ws)).  (* ws key ws ':' ws value ws *)

Fixpoint render (d : doc) : bytes :=
  match d with
  | DNull => B"null" | DTrue => B"true" | DFalse => B"false"
  | DNum n => render_num n
  | DStr s => render_string s
  | DArr w elems =>
      x5b :: match elems with
             | [] => render_ws w
             | _ => (fix go (l : list (ws * doc * ws)) : bytes :=
                       match l with
                       | [] => []
                       | [(a, x, b)] => render_ws a ++ render x ++ render_ws b
                       | (a, x, b) :: t => render_ws a ++ render x ++ render_ws b ++ x2c :: go t
                       end) elems
             end ++ [x5d]
  | DObj w members =>
      x7b :: match members with
             | [] => render_ws w
             | _ => (fix go (l : list (ws * list sitem * ws * ws * doc * ws)) : bytes :=
                       match l with
                       | [] => []
                       | [(a, k, b, c, x, e)] => render_ws a ++ render_string k ++ render_ws b ++ x3a :: render_ws c ++ render x ++ render_ws e
                       | (a, k, b, c, x, e) :: t =>
                           render_ws a ++ render_string k ++ render_ws b ++ x3a :: render_ws c ++ render x ++ render_ws e ++ x2c :: go t
                       end) members
             end ++ [x7d]
  end.

Fixpoint doc_ok (d : doc) : bool :=
  match d with
  | DNum n => jnum_ok n
  | DStr s => sitems_ok s
  | DArr w elems => forallb (fun e => doc_ok (snd (fst e))) elems
  | DObj w members => forallb (fun m => let '(_, k, _, _, x, _) := m in sitems_ok k && doc_ok x) members
  | _ => true
  end.

(* ---------- meaning (the number rule of the library: C03) ---------- *)
Section Denote.
  Variable pfloat : bytes -> option Z.
  (* an integer literal without fraction or exponent that fits int64 is an int; every other number is the float64 the text parses to *)
  Definition denote_num (n : jnum) : option val :=
    let mag := digits_value (n_int n) 0 in
    let z := if n_neg n then - mag else mag in
    match n_frac n, n_exp n with
    | None, None => if in_int64 z then Some (VInt z)
                    else match pfloat (render_num n) with Some b => Some (VFloat b) | None => None end
    | _, _ => match pfloat (render_num n) with Some b => Some (VFloat b) | None => None end
    end.
  Fixpoint denote (d : doc) : option val :=
    match d with
    | DNull => Some VNil | DTrue => Some (VBool true) | DFalse => Some (VBool false)
    | DNum n => denote_num n
    | DStr s => match denote_string s with Some b => Some (VStr b) | None => None end
    | DArr _ elems =>
        match (fix go (l : list (ws * doc * ws)) : option (list val) :=
                 match l with
                 | [] => Some []
                 | (_, x, _) :: t => match denote x, go t with Some v, Some vs => Some (v :: vs) | _, _ => None end
                 end) elems with
        | Some vs => Some (VList vs) | None => None
        end
    | DObj _ members =>
        (* duplicate keys: the last one wins *)
        match (fix go (l : list (ws * list sitem * ws * ws * doc * ws)) (acc : list (bytes * val)) : option (list (bytes * val)) :=
                 match l with
                 | [] => Some acc
                 | (_, k, _, _, x, _) :: t =>
                     match denote_string k, denote x with Some kb, Some v => go t (aset kb v acc) | _, _ => None end
                 end) members [] with
        | Some kvs => Some (VObj kvs) | None => None
        end
    end.
End Denote.

(* ---------- the canonical derivation of a value (what String() writes) ---------- *)
Definition sitem_of_rune (r : Z) : sitem :=
  if r =? 34 then SEsc EQuote else if r =? 92 then SEsc EBackslash
  else if r =? 8 then SEsc EB else if r =? 12 then SEsc EF else if r =? 10 then SEsc EN else if r =? 13 then SEsc ER else if r =? 9 then SEsc ET
  else if r <? 32 then SU (mkHex 0 false, mkHex 0 false, mkHex (r / 16) false, mkHex (r mod 16) false)
  else SChar r.
Fixpoint sitems_of (fuel : nat) (s : bytes) : list sitem :=
  match fuel with
  | O => []
  | S f => match s with [] => [] | _ => let '(r, n) := decode_rune s in sitem_of_rune r :: sitems_of f (skipn n s) end
  end.

(* splitting a number text produced by Itoa / FormatFloat into the grammar's parts *)
Fixpoint span_digits (s : bytes) : bytes * bytes :=
  match s with
  | c :: t => if is_digit c then let '(d, r) := span_digits t in (c :: d, r) else ([], s)
  | [] => ([], [])
  end.
Definition parse_num_text (s : bytes) : option jnum :=
  let '(neg, s1) := match s with c :: t => if byte_eqb c x2d then (true, t) else (false, s) | [] => (false, s) end in
  let '(ip, s2) := span_digits s1 in
  let '(fr, s3) := match s2 with
                   | c :: t => if byte_eqb c x2e then let '(f, r) := span_digits t in (Some f, r) else (None, s2)
                   | [] => (None, s2) end in
  let '(ex, s4) := match s3 with
                   | c :: t => if byte_eqb c x65 || byte_eqb c x45 then
                                 let '(sg, t') := match t with
                                                  | g :: u => if byte_eqb g x2b then (SgPlus, u) else if byte_eqb g x2d then (SgMinus, u) else (SgNone, t)
                                                  | [] => (SgNone, t) end in
                                 let '(e, r) := span_digits t' in (Some (byte_eqb c x45, sg, e), r)
                               else (None, s3)
                   | [] => (None, s3) end in
  match s4 with
  | [] => let n := mkNum neg ip fr ex in if jnum_ok n then Some n else None
  | _ => None
  end.

Section DocOf.
  Variable num_text : val -> bytes.     (* ser of an int / float *)
  Fixpoint doc_of (v : val) : doc :=
    match v with
    | VNil => DNull | VBool true => DTrue | VBool false => DFalse
    | VInt _ | VFloat _ => match parse_num_text (num_text v) with Some n => DNum n | None => DNull end
    | VStr s => DStr (sitems_of (length s) s)
    | VList l => DArr [] (map (fun x => ([], doc_of x, [])) l)
    | VObj kvs => DObj [] (map (fun kv => ([], sitems_of (length (fst kv)) (fst kv), [], [], doc_of (snd kv), [])) kvs)
    end.
End DocOf.

(* ---------- reference decoder: plain recursive descent producing the derivation ---------- *)
Fixpoint take_ws (s : bytes) : ws * bytes :=
  match s with
  | c :: t => if byte_eqb c x20 then let '(w, r) := take_ws t in (WsSpace :: w, r)
              else if byte_eqb c x09 then let '(w, r) := take_ws t in (WsTab :: w, r)
              else if byte_eqb c x0a then let '(w, r) := take_ws t in (WsLF :: w, r)
              else if byte_eqb c x0d then let '(w, r) := take_ws t in (WsCR :: w, r)
              else ([], s)
  | [] => ([], [])
  end.

Definition hexd_of_byte (b : byte) : option hexd :=
  let z := bZ b in
  if (48 <=? z) && (z <=? 57) then Some (mkHex (z - 48) false)
  else if (97 <=? z) && (z <=? 102) then Some (mkHex (z - 87) false)
  else if (65 <=? z) && (z <=? 70) then Some (mkHex (z - 55) true)
  else None.
Definition take_hex4 (s : bytes) : option (hex4 * bytes) :=
  match s with
  | a :: b :: c :: d :: r =>
      match hexd_of_byte a, hexd_of_byte b, hexd_of_byte c, hexd_of_byte d with
      | Some ha, Some hb, Some hc, Some hd => Some ((ha, hb, hc, hd), r)
      | _, _, _, _ => None
      end
  | _ => None
  end.
Definition esc_of_byte (b : byte) : option esc :=
  let z := bZ b in
  if z =? 34 then Some EQuote else if z =? 92 then Some EBackslash else if z =? 47 then Some ESolidus
  else if z =? 98 then Some EB else if z =? 102 then Some EF else if z =? 110 then Some EN else if z =? 114 then Some ER
  else if z =? 116 then Some ET else None.

(* items of a string body up to the closing quote *)
Fixpoint ref_string (fuel : nat) (s : bytes) : option (list sitem * bytes) :=
  match fuel with
  | O => None
  | S f =>
      match s with
      | [] => None
      | c :: t =>
          if byte_eqb c x22 then Some ([], t)
          else if byte_eqb c x5c then
            match t with
            | [] => None
            | e :: u =>
                if byte_eqb e x75 then
                  match take_hex4 u with
                  | None => None
                  | Some (h, r1) =>
                      let v := hex4_val h in
                      if is_high v then
                        (* a following \uDCxx makes a pair *)
                        match r1 with
                        | b1 :: b2 :: r2 =>
                            if byte_eqb b1 x5c && byte_eqb b2 x75 then
                              match take_hex4 r2 with
                              | Some (l, r3) =>
                                  if is_low (hex4_val l)
                                  then match ref_string f r3 with Some (is, rest) => Some (SPair h l :: is, rest) | None => None end
                                  else match ref_string f r1 with Some (is, rest) => Some (SLone h :: is, rest) | None => None end
                              | None => None
                              end
                            else match ref_string f r1 with Some (is, rest) => Some (SLone h :: is, rest) | None => None end
                        | _ => match ref_string f r1 with Some (is, rest) => Some (SLone h :: is, rest) | None => None end
                        end
                      else if is_low v then match ref_string f r1 with Some (is, rest) => Some (SLone h :: is, rest) | None => None end
                      else match ref_string f r1 with Some (is, rest) => Some (SU h :: is, rest) | None => None end
                  end
                else match esc_of_byte e with
                     | Some k => match ref_string f u with Some (is, rest) => Some (SEsc k :: is, rest) | None => None end
                     | None => None
                     end
            end
          else
            let '(r, n) := decode_rune s in
            if ((r =? rune_error) && Nat.eqb n 1) || (r <? 32) then None
            else match ref_string f (skipn n s) with Some (is, rest) => Some (SChar r :: is, rest) | None => None end
      end
  end.

(* number at the head of s: the maximal number token *)
Definition ref_number (s : bytes) : option (jnum * bytes) :=
  let '(neg, s1) := match s with c :: t => if byte_eqb c x2d then (true, t) else (false, s) | [] => (false, s) end in
  let '(ip, s2) := span_digits s1 in
  let '(fr, s3) := match s2 with
                   | c :: t => if byte_eqb c x2e then let '(f, r) := span_digits t in (Some f, r) else (None, s2)
                   | [] => (None, s2) end in
  let '(ex, s4) := match s3 with
                   | c :: t => if byte_eqb c x65 || byte_eqb c x45 then
                                 let '(sg, t') := match t with
                                                  | g :: u => if byte_eqb g x2b then (SgPlus, u) else if byte_eqb g x2d then (SgMinus, u) else (SgNone, t)
                                                  | [] => (SgNone, t) end in
                                 let '(e, r) := span_digits t' in (Some (byte_eqb c x45, sg, e), r)
                               else (None, s3)
                   | [] => (None, s3) end in
  let n := mkNum neg ip fr ex in
  if jnum_ok n then Some (n, s4) else None.

Fixpoint starts_with (p s : bytes) : option bytes :=
  match p, s with
  | [], _ => Some s
  | a :: p', b :: s' => if byte_eqb a b then starts_with p' s' else None
  | _, [] => None
  end.

Fixpoint ref_value (fuel : nat) (s : bytes) : option (doc * bytes) :=
  match fuel with
  | O => None
  | S f =>
      match s with
      | [] => None
      | c :: t =>
          if byte_eqb c x6e then match starts_with (B"null") s with Some r => Some (DNull, r) | None => None end
          else if byte_eqb c x74 then match starts_with (B"true") s with Some r => Some (DTrue, r) | None => None end
          else if byte_eqb c x66 then match starts_with (B"false") s with Some r => Some (DFalse, r) | None => None end
          else if byte_eqb c x22 then match ref_string (S (length t)) t with Some (is, r) => Some (DStr is, r) | None => None end
          else if byte_eqb c x5b then
            let '(w, r0) := take_ws t in
            match r0 with
            | c0 :: r1 =>
                if byte_eqb c0 x5d then Some (DArr w [], r1)
                else
                  (fix elems (g : nat) (a : ws) (s : bytes) (acc : list (ws * doc * ws)) {struct g} : option (doc * bytes) :=
                     match g with
                     | O => None
                     | S g' =>
                         match ref_value f s with
                         | None => None
                         | Some (x, s1) =>
                             let '(b, s2) := take_ws s1 in
                             match s2 with
                             | d :: s3 =>
                                 if byte_eqb d x5d then Some (DArr [] (acc ++ [(a, x, b)]), s3)
                                 else if byte_eqb d x2c then let '(a', s4) := take_ws s3 in elems g' a' s4 (acc ++ [(a, x, b)])
                                 else None
                             | [] => None
                             end
                         end
                     end) (S (length r0)) w r0 []
            | [] => None
            end
          else if byte_eqb c x7b then
            let '(w, r0) := take_ws t in
            match r0 with
            | c0 :: r1 =>
                if byte_eqb c0 x7d then Some (DObj w [], r1)
                else
                  (fix members (g : nat) (a : ws) (s : bytes) (acc : list (ws * list sitem * ws * ws * doc * ws)) {struct g} : option (doc * bytes) :=
                     match g with
                     | O => None
                     | S g' =>
                         match s with
                         | q :: s0 =>
                             if negb (byte_eqb q x22) then None
                             else match ref_string (S (length s0)) s0 with
                                  | None => None
                                  | Some (k, s1) =>
                                      let '(b, s2) := take_ws s1 in
                                      match s2 with
                                      | col :: s3 =>
                                          if negb (byte_eqb col x3a) then None
                                          else let '(cws, s4) := take_ws s3 in
                                               match ref_value f s4 with
                                               | None => None
                                               | Some (x, s5) =>
                                                   let '(e, s6) := take_ws s5 in
                                                   match s6 with
                                                   | d :: s7 =>
                                                       if byte_eqb d x7d then Some (DObj [] (acc ++ [(a, k, b, cws, x, e)]), s7)
                                                       else if byte_eqb d x2c then let '(a', s8) := take_ws s7 in members g' a' s8 (acc ++ [(a, k, b, cws, x, e)])
                                                       else None
                                                   | [] => None
                                                   end
                                               end
                                      | [] => None
                                      end
                                  end
                         | [] => None
                         end
                     end) (S (length r0)) w r0 []
            | [] => None
            end
          else match ref_number s with Some (n, r) => Some (DNum n, r) | None => None end
      end
  end.

(* a whole JSON text: ws value ws, nothing else *)
Definition ref_parse (s : bytes) : option (ws * doc * ws) :=
  let '(a, s1) := take_ws s in
  match ref_value (S (length s1)) s1 with
  | Some (d, s2) => let '(b, s3) := take_ws s2 in match s3 with [] => Some (a, d, b) | _ => None end
  | None => None
  end.
Definition json_valid (s : bytes) : bool := match ref_parse s with Some _ => true | None => false end.
Definition render_text (t : ws * doc * ws) : bytes := let '(a, d, b) := t in render_ws a ++ render d ++ render_ws b.

(* ---------- json.Indent(dst, src, "", n spaces): same tokens, canonical layout ---------- *)
Definition nl_indent (n depth : nat) : ws := WsLF :: repeat_list WsSpace (n * depth).
Fixpoint relayout (n depth : nat) (d : doc) : doc :=
  match d with
  | DArr _ [] => DArr [] []
  | DArr _ elems =>
      let k := length elems in
      DArr [] ((fix go (l : list (ws * doc * ws)) : list (ws * doc * ws) :=
                  match l with
                  | [] => []
                  | [(_, x, _)] => [(nl_indent n (S depth), relayout n (S depth) x, nl_indent n depth)]
                  | (_, x, _) :: t => (nl_indent n (S depth), relayout n (S depth) x, []) :: go t
                  end) elems)
  | DObj _ [] => DObj [] []
  | DObj _ members =>
      DObj [] ((fix go (l : list (ws * list sitem * ws * ws * doc * ws)) : list (ws * list sitem * ws * ws * doc * ws) :=
                  match l with
                  | [] => []
                  | [(_, k, _, _, x, _)] => [(nl_indent n (S depth), k, [], [WsSpace], relayout n (S depth) x, nl_indent n depth)]
                  | (_, k, _, _, x, _) :: t => (nl_indent n (S depth), k, [], [WsSpace], relayout n (S depth) x, []) :: go t
                  end) members)
  | _ => d
  end.
(* json.Indent on a text: empty output when the text is not valid JSON *)
Definition indent_text (n : nat) (s : bytes) : bytes :=
  match ref_parse s with
  | Some (a, d, b) => render (relayout n 0 d) ++ render_ws b     (* leading blanks dropped, trailing blanks kept *)
  | None => []
  end.
