(* TreeFormProofs.v — properties of the tree-form functions GetTF / TypeOfTF / SetTF / UnsetTF of Heap.v *)
From Anytype Require Import Base FloatBits Value GoInt Heap.
From Coq Require Import ZifyBool.
Local Open Scope Z_scope.
Arguments get_tf : simpl never.  Arguments typeof_tf : simpl never.  Arguments set_tf : simpl never.  Arguments unset_tf : simpl never.

Inductive seg := Key (k : bytes) | Idx (n : nat).
Definition no_sigil (c : byte) : bool := negb (byte_eqb c x2e) && negb (byte_eqb c x23).
Definition ok_key (k : bytes) : bool := match k with [] => false | _ => forallb no_sigil k end.
Definition ok_seg (s : seg) : bool := match s with Key k => ok_key k | Idx n => Z.of_nat n <? two63 end.
Definition render_seg (s : seg) : bytes := match s with Key k => x2e :: k | Idx n => x23 :: itoa (Z.of_nat n) end.
Definition render_path (p : list seg) : bytes := flat_map render_seg p.
(* step-by-step navigation with Get *)
Fixpoint nav (h : heap) (v : hval) (p : list seg) : res hval :=
  match p with
  | [] => Ok v
  | Key k :: t => match v with
                  | HO id => match get_obj h id with
                             | Some kvs => match o_get kvs k with Ok x => nav h x t | Panic => Panic end
                             | None => Panic end
                  | _ => Panic end
  | Idx n :: t => match v with
                  | HL id => match get_list h id with
                             | Some l => match l_get l (Z.of_nat n) with Ok x => nav h x t | Panic => Panic end
                             | None => Panic end
                  | _ => Panic end
  end.

Section TF.
Hypothesis pint0_itoa : forall z, in_int64 z = true -> pint0 (itoa z) = Some z.
Hypothesis itoa_digits : forall n, 0 <= n -> itoa n <> [] /\ forallb (fun c => (48 <=? bZ c) && (bZ c <=? 57)) (itoa n) = true.

(* ---------- one-step unfoldings ---------- *)
Lemma get_tf_S f h v tf : get_tf (S f) h v tf =
      match v with
      | HL id =>
          match get_list h id, valid_head x23 tf with
          | Some l, Some rest =>
              match split_tf rest with
              | SegDot d =>
                  match pint0 (firstn d rest) with
                  | None => Panic
                  | Some i => match l_get l i with
                              | Ok (HO o) => get_tf f h (HO o) (skipn d rest)
                              | _ => Panic
                              end
                  end
              | SegHash d =>
                  match pint0 (firstn d rest) with
                  | None => Panic
                  | Some i => match l_get l i with
                              | Ok (HL o) => get_tf f h (HL o) (skipn d rest)
                              | _ => Panic
                              end
                  end
              | SegLeaf => match pint0 rest with None => Panic | Some i => l_get l i end
              end
          | _, _ => Panic
          end
      | HO id =>
          match get_obj h id, valid_head x2e tf with
          | Some kvs, Some rest =>
              match split_tf rest with
              | SegDot d => match o_get kvs (firstn d rest) with
                            | Ok (HO o) => get_tf f h (HO o) (skipn d rest)
                            | _ => Panic
                            end
              | SegHash d => match o_get kvs (firstn d rest) with
                             | Ok (HL o) => get_tf f h (HL o) (skipn d rest)
                             | _ => Panic
                             end
              | SegLeaf => o_get kvs rest
              end
          | _, _ => Panic
          end
      | _ => Panic
      end.
Proof. reflexivity. Qed.

Lemma typeof_tf_S f h v tf : typeof_tf (S f) h v tf =
      match v with
      | HL id =>
          match get_list h id, valid_head x23 tf with
          | Some l, Some rest =>
              match split_tf rest with
              | SegDot d =>
                  match pint0 (firstn d rest) with
                  | None => KUndefined
                  | Some i => match l_get l i with
                              | Ok (HO o) => typeof_tf f h (HO o) (skipn d rest)
                              | _ => KUndefined
                              end
                  end
              | SegHash d =>
                  match pint0 (firstn d rest) with
                  | None => KUndefined
                  | Some i => match l_get l i with
                              | Ok (HL o) => typeof_tf f h (HL o) (skipn d rest)
                              | _ => KUndefined
                              end
                  end
              | SegLeaf => match pint0 rest with None => KUndefined | Some i => l_typeof l i end
              end
          | _, _ => KUndefined
          end
      | HO id =>
          match get_obj h id, valid_head x2e tf with
          | Some kvs, Some rest =>
              match split_tf rest with
              | SegDot d => match alookup (firstn d rest) kvs with
                            | Some (HO o) => typeof_tf f h (HO o) (skipn d rest)
                            | _ => KUndefined
                            end
              | SegHash d => match alookup (firstn d rest) kvs with
                             | Some (HL o) => typeof_tf f h (HL o) (skipn d rest)
                             | _ => KUndefined
                             end
              | SegLeaf => o_typeof kvs rest
              end
          | _, _ => KUndefined
          end
      | _ => KUndefined
      end.
Proof. reflexivity. Qed.


Lemma set_tf_S f h v tf x : set_tf (S f) h v tf x =
      match v with
      | HL id =>
          match get_list h id, valid_head x23 tf with
          | Some l, Some rest =>
              let count := Z.of_nat (length l) in
              match split_tf rest with
              | SegDot d =>
                  match pint0 (firstn d rest) with
                  | None => (h, true)
                  | Some i =>
                      if count <=? i then
                        let '(h1, o) := alloc h (CObj []) in
                        set_tf f (set_list h1 id (pad_add l i (HO o))) (HO o) (skipn d rest) x
                      else match l_typeof l i, l_get l i with
                           | KObject, Ok (HO o) => set_tf f h (HO o) (skipn d rest) x
                           | _, _ =>
                               let '(h1, o) := alloc h (CObj []) in
                               match l_replace l i (HO o) with
                               | Panic => (h1, true)
                               | Ok l' => set_tf f (set_list h1 id l') (HO o) (skipn d rest) x
                               end
                           end
                  end
              | SegHash d =>
                  match pint0 (firstn d rest) with
                  | None => (h, true)
                  | Some i =>
                      if count <=? i then
                        let '(h1, o) := alloc h (CList []) in
                        set_tf f (set_list h1 id (pad_add l i (HL o))) (HL o) (skipn d rest) x
                      else match l_typeof l i, l_get l i with
                           | KList, Ok (HL o) => set_tf f h (HL o) (skipn d rest) x
                           | _, _ =>
                               let '(h1, o) := alloc h (CList []) in
                               match l_replace l i (HL o) with
                               | Panic => (h1, true)
                               | Ok l' => set_tf f (set_list h1 id l') (HL o) (skipn d rest) x
                               end
                           end
                  end
              | SegLeaf =>
                  match pint0 rest with
                  | None => (h, true)
                  | Some i =>
                      if count <=? i then (set_list h id (pad_add l i x), false)
                      else match l_replace l i x with
                           | Panic => (h, true)
                           | Ok l' => (set_list h id l', false)
                           end
                  end
              end
          | _, _ => (h, true)
          end
      | HO id =>
          match get_obj h id, valid_head x2e tf with
          | Some kvs, Some rest =>
              match split_tf rest with
              | SegDot d =>
                  let key := firstn d rest in
                  match alookup key kvs with
                  | Some (HO o) => set_tf f h (HO o) (skipn d rest) x
                  | _ => let '(h1, o) := alloc h (CObj []) in
                         set_tf f (set_obj h1 id (aset key (HO o) kvs)) (HO o) (skipn d rest) x
                  end
              | SegHash d =>
                  let key := firstn d rest in
                  match alookup key kvs with
                  | Some (HL o) => set_tf f h (HL o) (skipn d rest) x
                  | _ => let '(h1, o) := alloc h (CList []) in
                         set_tf f (set_obj h1 id (aset key (HL o) kvs)) (HL o) (skipn d rest) x
                  end
              | SegLeaf => (set_obj h id (aset rest x kvs), false)
              end
          | _, _ => (h, true)
          end
      | _ => (h, true)
      end.
Proof. reflexivity. Qed.

Lemma unset_tf_S f h v tf : unset_tf (S f) h v tf =
      match v with
      | HL id =>
          match get_list h id, valid_head x23 tf with
          | Some l, Some rest =>
              match split_tf rest with
              | SegDot d =>
                  match pint0 (firstn d rest) with
                  | None => (h, true)
                  | Some i => match l_get l i with Ok (HO o) => unset_tf f h (HO o) (skipn d rest) | _ => (h, true) end
                  end
              | SegHash d =>
                  match pint0 (firstn d rest) with
                  | None => (h, true)
                  | Some i => match l_get l i with Ok (HL o) => unset_tf f h (HL o) (skipn d rest) | _ => (h, true) end
                  end
              | SegLeaf =>
                  match pint0 rest with
                  | None => (h, true)
                  | Some i => let '(l', p) := l_delete l [i] in (set_list h id l', p)
                  end
              end
          | _, _ => (h, true)
          end
      | HO id =>
          match get_obj h id, valid_head x2e tf with
          | Some kvs, Some rest =>
              match split_tf rest with
              | SegDot d => match o_get kvs (firstn d rest) with Ok (HO o) => unset_tf f h (HO o) (skipn d rest) | _ => (h, true) end
              | SegHash d => match o_get kvs (firstn d rest) with Ok (HL o) => unset_tf f h (HL o) (skipn d rest) | _ => (h, true) end
              | SegLeaf => (set_obj h id (aremove rest kvs), false)
              end
          | _, _ => (h, true)
          end
      | _ => (h, true)
      end.
Proof. reflexivity. Qed.

Lemma l_typeof_get l i : l_typeof l i = match l_get l i with Ok x => hkind x | Panic => KUndefined end.
Proof. unfold l_typeof, l_get. destruct (in_range i (length l)); [|reflexivity].
  destruct (nth_error l (Z.to_nat i)); reflexivity. Qed.
Lemma o_typeof_get kvs k : o_typeof kvs k = match o_get kvs k with Ok x => hkind x | Panic => KUndefined end.
Proof. unfold o_typeof, o_get. destruct (alookup k kvs); reflexivity. Qed.


(* ---------- string surgery ---------- *)
Definition sigil (s : seg) : byte := match s with Key _ => x2e | Idx _ => x23 end.
Definition word (s : seg) : bytes := match s with Key k => k | Idx n => itoa (Z.of_nat n) end.
Lemma render_seg_eq s : render_seg s = sigil s :: word s.
Proof. destruct s; reflexivity. Qed.
Lemma render_path_cons s t : render_path (s :: t) = sigil s :: word s ++ render_path t.
Proof. unfold render_path. cbn [flat_map]. rewrite render_seg_eq. reflexivity. Qed.

Lemma firstn_length_app {A} (w r : list A) : firstn (length w) (w ++ r) = w.
Proof. induction w as [|x w IH]; cbn [length app firstn]; [destruct r; reflexivity | f_equal; exact IH]. Qed.
Lemma skipn_length_app {A} (w r : list A) : skipn (length w) (w ++ r) = r.
Proof. induction w as [|x w IH]; cbn [length app skipn]; [reflexivity | exact IH]. Qed.

Lemma index_byte_app c w rest : forallb (fun x => negb (byte_eqb x c)) w = true ->
  index_byte c (w ++ rest) = option_map (Nat.add (length w)) (index_byte c rest).
Proof. induction w as [|x w IH]; intros H.
  - cbn [app length]. destruct (index_byte c rest); reflexivity.
  - cbn [forallb] in H. apply andb_true_iff in H as [H1 H2]. apply negb_true_iff in H1.
    cbn [app index_byte length]. rewrite H1. rewrite (IH H2). destruct (index_byte c rest); reflexivity. Qed.

Lemma no_sigil_dot w : forallb no_sigil w = true -> forallb (fun x => negb (byte_eqb x x2e)) w = true.
Proof. induction w as [|x w IH]; cbn [forallb]; [reflexivity|]. unfold no_sigil at 1. intros H.
  apply andb_true_iff in H as [H1 H2]. apply andb_true_iff in H1 as [H1 H3]. rewrite H1. exact (IH H2). Qed.
Lemma no_sigil_hash w : forallb no_sigil w = true -> forallb (fun x => negb (byte_eqb x x23)) w = true.
Proof. induction w as [|x w IH]; cbn [forallb]; [reflexivity|]. unfold no_sigil at 1. intros H.
  apply andb_true_iff in H as [H1 H2]. apply andb_true_iff in H1 as [H1 H3]. rewrite H3. exact (IH H2). Qed.

Lemma split_tf_dot tf d : index_byte x2e tf = Some (S d) ->
  (forall hh, index_byte x23 tf = Some hh -> (S d < hh)%nat) -> split_tf tf = SegDot (S d).
Proof. intros H1 H2. unfold split_tf. rewrite H1. destruct (index_byte x23 tf) as [hh|]; [|reflexivity].
  specialize (H2 hh eq_refl). apply Nat.ltb_lt in H2. rewrite H2. reflexivity. Qed.
Lemma split_tf_hash tf d : index_byte x23 tf = Some (S d) ->
  (forall dd, index_byte x2e tf = Some dd -> (S d < dd)%nat) -> split_tf tf = SegHash (S d).
Proof. intros H1 H2. unfold split_tf. rewrite H1. destruct (index_byte x2e tf) as [dd|]; [|reflexivity].
  specialize (H2 dd eq_refl). destruct dd as [|dd]; [lia|].
  assert (E : Nat.ltb (S dd) (S d) = false) by (apply Nat.ltb_ge; lia). rewrite E. reflexivity. Qed.
Lemma split_tf_leaf tf : index_byte x2e tf = None -> index_byte x23 tf = None -> split_tf tf = SegLeaf.
Proof. intros H1 H2. unfold split_tf. rewrite H1, H2. reflexivity. Qed.

Lemma index_byte_none c w : forallb (fun x => negb (byte_eqb x c)) w = true -> index_byte c w = None.
Proof. intros H. pose proof (index_byte_app c w [] H) as E. rewrite app_nil_r in E. exact E. Qed.

Definition ok_word (w : bytes) : Prop := w <> [] /\ forallb no_sigil w = true.

Lemma split_tf_word w t : ok_word w ->
  split_tf (w ++ render_path t) =
  match t with [] => SegLeaf | Key _ :: _ => SegDot (length w) | Idx _ :: _ => SegHash (length w) end.
Proof. intros [Hne Hw]. pose proof (no_sigil_dot w Hw) as Hd. pose proof (no_sigil_hash w Hw) as Hh.
  destruct w as [|c0 w']; [congruence|]. set (w := c0 :: w') in *.
  destruct t as [|[k|n] t'].
  - cbn [render_path flat_map]. rewrite app_nil_r. apply split_tf_leaf; apply index_byte_none; assumption.
  - rewrite render_path_cons. cbn [sigil]. change (length w) with (S (length w')).
    apply split_tf_dot.
    + rewrite (index_byte_app _ _ _ Hd). cbn [index_byte]. rewrite byte_eqb_refl. cbn [option_map].
      change (length w) with (S (length w')). f_equal. lia.
    + intros hh. rewrite (index_byte_app _ _ _ Hh). cbn [index_byte]. change (byte_eqb x2e x23) with false. cbv iota.
      destruct (index_byte x23 (word (Key k) ++ render_path t')) as [j|]; cbn [option_map]; [|discriminate].
      intros E. injection E as <-. change (length w) with (S (length w')). lia.
  - rewrite render_path_cons. cbn [sigil]. change (length w) with (S (length w')).
    apply split_tf_hash.
    + rewrite (index_byte_app _ _ _ Hh). cbn [index_byte]. rewrite byte_eqb_refl. cbn [option_map].
      change (length w) with (S (length w')). f_equal. lia.
    + intros hh. rewrite (index_byte_app _ _ _ Hd). cbn [index_byte]. change (byte_eqb x23 x2e) with false. cbv iota.
      destruct (index_byte x2e (word (Idx n) ++ render_path t')) as [j|]; cbn [option_map]; [|discriminate].
      intros E. injection E as <-. change (length w) with (S (length w')). lia.
Qed.

Lemma valid_head_word c w r : w <> [] -> valid_head c (c :: w ++ r) = Some (w ++ r).
Proof. intros H. destruct w as [|x w]; [congruence|]. cbn [valid_head app]. rewrite byte_eqb_refl. reflexivity. Qed.
Lemma valid_head_other c c' w : byte_eqb c' c = false -> valid_head c (c' :: w) = None.
Proof. intros H. destruct w as [|x w]; cbn [valid_head]; [reflexivity|]. rewrite H. reflexivity. Qed.


(* ================= T3 ================= *)
Theorem tf_agree : forall fuel h v s,
  typeof_tf fuel h v s = match get_tf fuel h v s with Ok x => hkind x | Panic => KUndefined end.
Proof.
  induction fuel as [|f IH]; intros h v s; [reflexivity|].
  rewrite typeof_tf_S, get_tf_S.
  destruct v as [| b | z | bits | str | id | id]; try reflexivity.
  - destruct (get_list h id) as [l|]; [|reflexivity].
    destruct (valid_head x23 s) as [rest|]; [|reflexivity].
    destruct (split_tf rest) as [d|d|].
    + destruct (pint0 (firstn d rest)) as [i|]; [|reflexivity].
      destruct (l_get l i) as [[| b | z | bits | str | o | o]|]; try reflexivity. apply IH.
    + destruct (pint0 (firstn d rest)) as [i|]; [|reflexivity].
      destruct (l_get l i) as [[| b | z | bits | str | o | o]|]; try reflexivity. apply IH.
    + destruct (pint0 rest) as [i|]; [|reflexivity]. apply l_typeof_get.
  - destruct (get_obj h id) as [kvs|]; [|reflexivity].
    destruct (valid_head x2e s) as [rest|]; [|reflexivity].
    destruct (split_tf rest) as [d|d|].
    + unfold o_get. destruct (alookup (firstn d rest) kvs) as [[| b | z | bits | str | o | o]|]; try reflexivity. apply IH.
    + unfold o_get. destruct (alookup (firstn d rest) kvs) as [[| b | z | bits | str | o | o]|]; try reflexivity. apply IH.
    + apply o_typeof_get.
Qed.


(* ================= T1 / T2 ================= *)
Lemma digit_no_sigil c : (48 <=? bZ c) && (bZ c <=? 57) = true -> no_sigil c = true.
Proof. intros H. unfold no_sigil.
  assert (E1 : bZ x2e = 46) by reflexivity. assert (E2 : bZ x23 = 35) by reflexivity.
  destruct (byte_eqb c x2e) eqn:A; [apply byte_eqb_eq in A; subst c; lia|].
  destruct (byte_eqb c x23) eqn:A2; [apply byte_eqb_eq in A2; subst c; lia|]. reflexivity. Qed.

Lemma word_ok s : ok_seg s = true -> ok_word (word s).
Proof. destruct s as [k|n]; cbn [ok_seg word]; intros H.
  - unfold ok_key in H. destruct k as [|c k]; [discriminate|]. split; [discriminate | exact H].
  - destruct (itoa_digits (Z.of_nat n) ltac:(lia)) as [H1 H2]. split; [exact H1|].
    revert H2. generalize (itoa (Z.of_nat n)). intros w. induction w as [|c w IH]; cbn [forallb]; [reflexivity|].
    intros H2. apply andb_true_iff in H2 as [H2 H3]. rewrite (digit_no_sigil c H2). exact (IH H3). Qed.

Lemma pint0_idx n : ok_seg (Idx n) = true -> pint0 (itoa (Z.of_nat n)) = Some (Z.of_nat n).
Proof. cbn [ok_seg]. intros H. apply pint0_itoa. unfold in_int64, min_int, max_int, two63 in *. lia. Qed.

Lemma render_tail_fuel s t f : (length (render_path (s :: t)) < S f)%nat -> (length (render_path t) < f)%nat.
Proof. rewrite render_path_cons. cbn [length]. rewrite app_length. lia. Qed.

Lemma get_tf_nav_gen : forall p, p <> [] -> forallb ok_seg p = true ->
  forall fuel h v, (length (render_path p) < fuel)%nat -> get_tf fuel h v (render_path p) = nav h v p.
Proof.
  induction p as [|s t IH]; intros Hne Hok fuel h v Hf; [congruence|].
  cbn [forallb] in Hok. apply andb_true_iff in Hok as [Hs Ht].
  pose proof (word_ok s Hs) as Hw.
  destruct fuel as [|f]; [lia|].
  apply render_tail_fuel in Hf.
  rewrite render_path_cons. rewrite get_tf_S.
  destruct v as [| b | z | bits | str | id | id]; try (destruct s; reflexivity).
  - destruct s as [k|n].
    + cbn [sigil nav]. rewrite valid_head_other by reflexivity. destruct (get_list h id); reflexivity.
    + cbn [sigil nav]. destruct (get_list h id) as [l|]; [|reflexivity].
      rewrite valid_head_word by apply Hw. rewrite split_tf_word by exact Hw.
      destruct t as [|[k'|n'] t'].
      * cbn [render_path flat_map]. rewrite app_nil_r. cbn [word]. rewrite pint0_idx by exact Hs.
        destruct (l_get l (Z.of_nat n)); reflexivity.
      * rewrite firstn_length_app, skipn_length_app. cbn [word]. rewrite pint0_idx by exact Hs.
        destruct (l_get l (Z.of_nat n)) as [x|]; [|reflexivity].
        destruct x; try reflexivity. apply IH; [discriminate | exact Ht | exact Hf].
      * rewrite firstn_length_app, skipn_length_app. cbn [word]. rewrite pint0_idx by exact Hs.
        destruct (l_get l (Z.of_nat n)) as [x|]; [|reflexivity].
        destruct x; try reflexivity. apply IH; [discriminate | exact Ht | exact Hf].
  - destruct s as [k|n].
    + cbn [sigil nav]. destruct (get_obj h id) as [kvs|]; [|reflexivity].
      rewrite valid_head_word by apply Hw. rewrite split_tf_word by exact Hw.
      destruct t as [|[k'|n'] t'].
      * cbn [render_path flat_map]. rewrite app_nil_r. cbn [word].
        destruct (o_get kvs k); reflexivity.
      * rewrite firstn_length_app, skipn_length_app. cbn [word].
        destruct (o_get kvs k) as [x|]; [|reflexivity].
        destruct x; try reflexivity. apply IH; [discriminate | exact Ht | exact Hf].
      * rewrite firstn_length_app, skipn_length_app. cbn [word].
        destruct (o_get kvs k) as [x|]; [|reflexivity].
        destruct x; try reflexivity. apply IH; [discriminate | exact Ht | exact Hf].
    + cbn [sigil nav]. rewrite valid_head_other by reflexivity. destruct (get_obj h id); reflexivity.
Qed.

Theorem get_tf_nav : forall p h v, p <> [] -> forallb ok_seg p = true ->
  get_tf (S (length (render_path p))) h v (render_path p) = nav h v p.
Proof. intros p h v Hne Hok. apply get_tf_nav_gen; [exact Hne | exact Hok | lia]. Qed.

Corollary typeof_tf_nav : forall p h v, p <> [] -> forallb ok_seg p = true ->
  typeof_tf (S (length (render_path p))) h v (render_path p) = match nav h v p with Ok x => hkind x | Panic => KUndefined end.
Proof. intros p h v Hne Hok. rewrite tf_agree, get_tf_nav by assumption. reflexivity. Qed.


(* ================= T6 / T7 : SetTF ================= *)
Definition ref_ok (h : heap) (v : hval) : Prop :=
  match v with HL id => exists l, get_list h id = Some l | HO id => exists kvs, get_obj h id = Some kvs | _ => True end.
Definition heap_wf (h : heap) : Prop :=
  forall id, match nth_error h id with
             | Some (CList l) => forall x, In x l -> ref_ok h x
             | Some (CObj kvs) => forall k x, In (k, x) kvs -> ref_ok h x
             | None => True end.
Definition starts_ok (v : hval) (p : list seg) : Prop :=   (* the first sigil fits the container kind *)
  match v, p with HL _, Idx _ :: _ => True | HO _, Key _ :: _ => True | _, _ => False end.

(* --- cells, kinds of cells, heaps that only grow and keep the kind of every cell --- *)
Definition members (c : cell) : list hval := match c with CList l => l | CObj kvs => map snd kvs end.
Definition same_kind (c c' : cell) : Prop :=
  match c, c' with CList _, CList _ => True | CObj _, CObj _ => True | _, _ => False end.
Definition same_kinds (h h' : heap) : Prop :=
  forall id c, nth_error h id = Some c -> exists c', nth_error h' id = Some c' /\ same_kind c c'.

Lemma heap_wf_iff h :
  heap_wf h <-> (forall id c, nth_error h id = Some c -> forall x, In x (members c) -> ref_ok h x).
Proof. split.
  - intros W id c E x Hin. specialize (W id). rewrite E in W. destruct c as [l|kvs]; cbn [members] in Hin.
    + apply W; exact Hin.
    + apply in_map_iff in Hin as [[k y] [E1 E2]]. cbn [snd] in E1. subst y. apply (W k x E2).
  - intros W id. destruct (nth_error h id) as [[l|kvs]|] eqn:E; [| |exact I].
    + intros x Hin. apply (W id _ E). exact Hin.
    + intros k x Hin. apply (W id _ E). cbn [members]. apply in_map_iff. exists (k, x). split; [reflexivity|exact Hin]. Qed.

Lemma same_kind_refl c : same_kind c c.
Proof. destruct c; exact I. Qed.
Lemma same_kind_trans a b c : same_kind a b -> same_kind b c -> same_kind a c.
Proof. destruct a, b, c; cbn; auto. Qed.
Lemma same_kinds_refl h : same_kinds h h.
Proof. intros id c E. exists c. split; [exact E | apply same_kind_refl]. Qed.
Lemma same_kinds_trans a b c : same_kinds a b -> same_kinds b c -> same_kinds a c.
Proof. intros H1 H2 id ca E. destruct (H1 id ca E) as [cb [Eb Kb]]. destruct (H2 id cb Eb) as [cc [Ec Kc]].
  exists cc. split; [exact Ec | exact (same_kind_trans _ _ _ Kb Kc)]. Qed.

Lemma ref_ok_mono h h' v : same_kinds h h' -> ref_ok h v -> ref_ok h' v.
Proof. intros SK. destruct v as [| b | z | bits | str | id | id]; cbn [ref_ok]; try (intros; exact I).
  - intros [l E]. unfold get_list in *. destruct (nth_error h id) as [[l0|kvs]|] eqn:N; try discriminate.
    destruct (SK id _ N) as [c' [N' K]]. rewrite N'. destruct c' as [l'|kvs']; [eexists; reflexivity | contradiction].
  - intros [l E]. unfold get_obj in *. destruct (nth_error h id) as [[l0|kvs]|] eqn:N; try discriminate.
    destruct (SK id _ N) as [c' [N' K]]. rewrite N'. destruct c' as [l'|kvs']; [contradiction | eexists; reflexivity]. Qed.

Lemma same_kinds_app h c : same_kinds h (h ++ [c]).
Proof. intros id c0 E. exists c0. split; [|apply same_kind_refl]. rewrite nth_error_app1; [exact E|].
  apply nth_error_Some. congruence. Qed.
Lemma same_kinds_upd h id c c' : nth_error h id = Some c -> same_kind c c' -> same_kinds h (upd h id c').
Proof. intros E K j cj Ej. destruct (Nat.eq_dec id j) as [<-|N].
  - rewrite nth_error_upd_eq by (apply nth_error_Some; congruence). exists c'. split; [reflexivity|].
    rewrite E in Ej. injection Ej as <-. exact K.
  - rewrite nth_error_upd_neq by exact N. exists cj. split; [exact Ej | apply same_kind_refl]. Qed.

Lemma heap_wf_upd h id c c' : heap_wf h -> nth_error h id = Some c -> same_kind c c' ->
  (forall x, In x (members c') -> ref_ok h x) -> heap_wf (upd h id c').
Proof. intros W E K M. pose proof (same_kinds_upd h id c c' E K) as SK. apply heap_wf_iff. intros j cj Ej x Hin.
  apply (ref_ok_mono _ _ _ SK). destruct (Nat.eq_dec id j) as [<-|N].
  - rewrite nth_error_upd_eq in Ej by (apply nth_error_Some; congruence). injection Ej as <-. apply M. exact Hin.
  - rewrite nth_error_upd_neq in Ej by exact N. apply (proj1 (heap_wf_iff h) W j cj Ej x Hin). Qed.

Lemma heap_wf_app h c : heap_wf h -> (forall x, In x (members c) -> ref_ok h x) -> heap_wf (h ++ [c]).
Proof. intros W M. pose proof (same_kinds_app h c) as SK. apply heap_wf_iff. intros j cj Ej x Hin.
  apply (ref_ok_mono _ _ _ SK). destruct (lt_dec j (length h)) as [L|L].
  - rewrite nth_error_app1 in Ej by assumption. apply (proj1 (heap_wf_iff h) W j cj Ej x Hin).
  - rewrite nth_error_app2 in Ej by lia. destruct (j - length h)%nat as [|m] eqn:D; cbn [nth_error] in Ej.
    + injection Ej as <-. apply M; exact Hin.
    + destruct m; discriminate. Qed.

Lemma nth_error_app_last {A} (h : list A) c : nth_error (h ++ [c]) (length h) = Some c.
Proof. rewrite nth_error_app2 by lia. rewrite Nat.sub_diag. reflexivity. Qed.

(* --- sequence facts --- *)
Lemma repeat_list_length {A} (x : A) n : length (repeat_list x n) = n.
Proof. induction n; cbn [repeat_list length]; congruence. Qed.
Lemma In_repeat_list {A} (x y : A) n : In y (repeat_list x n) -> y = x.
Proof. induction n; cbn [repeat_list In]; [contradiction|]. intros [E|E]; [congruence | auto]. Qed.

Lemma l_get_nil i : l_get [] i = Panic.
Proof. unfold l_get, in_range. cbn [length]. destruct (0 <=? i) eqn:A; destruct (i <? Z.of_nat 0) eqn:B; try reflexivity. lia. Qed.

Lemma l_get_pad_add l i y : Z.of_nat (length l) <= i -> l_get (pad_add l i y) i = Ok y.
Proof. intros H. unfold l_get, pad_add, in_range.
  assert (L : length (l ++ repeat_list HNil (Z.to_nat (i - Z.of_nat (length l))) ++ [y]) = S (Z.to_nat i)).
  { rewrite !app_length, repeat_list_length. cbn [length]. lia. }
  rewrite L.
  assert (C : (0 <=? i) && (i <? Z.of_nat (S (Z.to_nat i))) = true) by lia. rewrite C.
  rewrite nth_error_app2 by lia. rewrite nth_error_app2 by (rewrite repeat_list_length; lia).
  rewrite repeat_list_length.
  replace (Z.to_nat i - length l - Z.to_nat (i - Z.of_nat (length l)))%nat with O by lia. reflexivity. Qed.

Lemma In_pad_add l i y z : In z (pad_add l i y) -> In z l \/ z = HNil \/ z = y.
Proof. unfold pad_add. intros H. apply in_app_or in H as [H|H]; [left; exact H|].
  apply in_app_or in H as [H|H].
  - right. left. exact (In_repeat_list _ _ _ H).
  - right. right. destruct H as [H|[]]. congruence. Qed.

Lemma l_get_upd l i y : 0 <= i < Z.of_nat (length l) -> l_get (upd l (Z.to_nat i) y) i = Ok y.
Proof. intros H. unfold l_get, in_range. rewrite upd_length.
  assert (C : (0 <=? i) && (i <? Z.of_nat (length l)) = true) by lia. rewrite C.
  rewrite nth_error_upd_eq by lia. reflexivity. Qed.

Lemma In_upd {A} (l : list A) n y z : In z (upd l n y) -> In z l \/ z = y.
Proof. revert n. induction l as [|a l IH]; intros [|n]; cbn [upd In]; auto.
  - intros [E|E]; [right; congruence | left; right; exact E].
  - intros [E|E]; [left; left; exact E|]. destruct (IH n E) as [H|H]; [left; right; exact H | right; exact H]. Qed.

Lemma In_aset_snd k (y : hval) kvs z : In z (map snd (aset k y kvs)) -> In z (map snd kvs) \/ z = y.
Proof. induction kvs as [|[k' v'] t IH]; cbn [aset map In snd].
  - intros [E|[]]. right. congruence.
  - destruct (bytes_eqb k k'); cbn [map In snd].
    + intros [E|E]; [right; congruence | left; right; exact E].
    + intros [E|E]; [left; left; exact E|]. destruct (IH E) as [H|H]; [left; right; exact H | right; exact H]. Qed.

Lemma l_get_In l i x : l_get l i = Ok x -> In x l.
Proof. unfold l_get. destruct (in_range i (length l)); [|discriminate].
  destruct (nth_error l (Z.to_nat i)) eqn:E; [|discriminate]. intros H. injection H as <-.
  exact (nth_error_In _ _ E). Qed.
Lemma o_get_In kvs k x : o_get kvs k = Ok x -> In x (map snd kvs).
Proof. unfold o_get. destruct (alookup k kvs) eqn:E; [|discriminate]. intros H. injection H as ->.
  apply alookup_In in E. apply in_map_iff. exists (k, x). split; [reflexivity | exact E]. Qed.


(* --- one navigation step, the container cells a navigation passes through --- *)
Definition cid (v : hval) : nat := match v with HL id | HO id => id | _ => O end.
Definition fits (v : hval) (s : seg) : bool :=
  match v, s with HL _, Idx _ => true | HO _, Key _ => true | _, _ => false end.
Definition step1 (h : heap) (v : hval) (s : seg) : res hval :=
  match s, v with
  | Key k, HO id => match get_obj h id with Some kvs => o_get kvs k | None => Panic end
  | Idx n, HL id => match get_list h id with Some l => l_get l (Z.of_nat n) | None => Panic end
  | _, _ => Panic
  end.
(* the ids of the containers an existing navigation along p goes through (it stops where SetTF would start to create) *)
Fixpoint visited (h : heap) (v : hval) (p : list seg) : list nat :=
  match p with
  | [] => []
  | s :: t => if fits v s
              then cid v :: match step1 h v s with Ok x => visited h x t | Panic => [] end
              else []
  end.

Lemma nav_cons h v s t : nav h v (s :: t) = match step1 h v s with Ok x => nav h x t | Panic => Panic end.
Proof. destruct s as [k|n]; destruct v as [| b | z | bits | str | id | id]; cbn [nav step1]; try reflexivity.
  - destruct (get_obj h id); reflexivity.
  - destruct (get_list h id); reflexivity. Qed.

Lemma step1_ext h h' v s : nth_error h' (cid v) = nth_error h (cid v) -> step1 h' v s = step1 h v s.
Proof. intros E. destruct s as [k|n]; destruct v as [| b | z | bits | str | id | id]; cbn [step1 cid] in *; try reflexivity.
  - unfold get_obj. rewrite E. reflexivity.
  - unfold get_list. rewrite E. reflexivity. Qed.

Lemma starts_ok_fits v s t : starts_ok v (s :: t) <-> fits v s = true.
Proof. destruct v, s; cbn; split; intros H; try exact I; try reflexivity; try discriminate; try contradiction. Qed.

Lemma fits_cell h v s : fits v s = true -> ref_ok h v ->
  exists c, nth_error h (cid v) = Some c /\
            match s with Key _ => exists kvs, c = CObj kvs | Idx _ => exists l, c = CList l end.
Proof. destruct v as [| b | z | bits | str | id | id]; destruct s as [k|n]; cbn [fits]; try discriminate; intros _; cbn [ref_ok cid].
  - intros [l E]. unfold get_list in E. destruct (nth_error h id) as [[l0|kvs]|]; try discriminate.
    eexists; split; [reflexivity|]. eexists; reflexivity.
  - intros [l E]. unfold get_obj in E. destruct (nth_error h id) as [[l0|kvs]|]; try discriminate.
    eexists; split; [reflexivity|]. eexists; reflexivity. Qed.

Lemma step1_In h v s x c : nth_error h (cid v) = Some c -> step1 h v s = Ok x -> In x (members c).
Proof. intros E. destruct s as [k|n]; destruct v as [| b | z | bits | str | id | id]; cbn [step1 cid] in *; try discriminate.
  - unfold get_obj. rewrite E. destruct c as [l|kvs]; [discriminate|]. cbn [members]. apply o_get_In.
  - unfold get_list. rewrite E. destruct c as [l|kvs]; [|discriminate]. cbn [members]. apply l_get_In. Qed.

Definition mk_ref (s : seg) (o : nat) : hval := match s with Key _ => HO o | Idx _ => HL o end.
Definition mk_cell (s : seg) : cell := match s with Key _ => CObj [] | Idx _ => CList [] end.

(* everything the "create a fresh container and link it" branches of SetTF have in common *)
Lemma fresh_step h v s s' t c c' :
  heap_wf h -> nth_error h (cid v) = Some c -> same_kind c c' ->
  (forall z, In z (members c') -> ref_ok h z \/ z = mk_ref s' (length h)) ->
  (forall h2, nth_error h2 (cid v) = Some c' -> step1 h2 v s = Ok (mk_ref s' (length h))) ->
  let h1 := upd (h ++ [mk_cell s']) (cid v) c' in
  let v1 := mk_ref s' (length h) in
  heap_wf h1 /\ same_kinds h h1 /\ (length h <= length h1)%nat /\ ref_ok h1 v1 /\ fits v1 s' = true /\ step1 h1 v s = Ok v1
  /\ (forall j, (j < length h)%nat -> j <> cid v -> nth_error h1 j = nth_error h j)
  /\ visited h1 v1 (s' :: t) = [length h].
Proof.
  intros W E K M R h1 v1.
  assert (Hlt : (cid v < length h)%nat) by (apply nth_error_Some; congruence).
  set (h0 := h ++ [mk_cell s']).
  assert (E0 : nth_error h0 (cid v) = Some c) by (unfold h0; rewrite nth_error_app1 by exact Hlt; exact E).
  assert (SK0 : same_kinds h h0) by apply same_kinds_app.
  assert (SK1 : same_kinds h0 h1) by (apply (same_kinds_upd h0 (cid v) c c' E0 K)).
  assert (SK : same_kinds h h1) by (exact (same_kinds_trans _ _ _ SK0 SK1)).
  assert (W0 : heap_wf h0). { apply heap_wf_app; [exact W|]. destruct s'; cbn [mk_cell members map]; intros x []. }
  assert (Elast : nth_error h1 (length h) = Some (mk_cell s')).
  { unfold h1. rewrite nth_error_upd_neq by lia. apply nth_error_app_last. }
  assert (R0 : ref_ok h0 v1).
  { unfold v1, h0. destruct s' as [k'|n']; cbn [mk_ref mk_cell ref_ok].
    - unfold get_obj. rewrite nth_error_app_last. eexists; reflexivity.
    - unfold get_list. rewrite nth_error_app_last. eexists; reflexivity. }
  assert (Eid : nth_error h1 (cid v) = Some c').
  { unfold h1. apply nth_error_upd_eq. unfold h0. rewrite app_length. cbn [length]. lia. }
  split; [|split; [exact SK|split; [|split; [|split; [|split; [|split]]]]]].
  - apply (heap_wf_upd h0 (cid v) c c' W0 E0 K). intros z Hz. destruct (M z Hz) as [Hr|Hr].
    + exact (ref_ok_mono _ _ _ SK0 Hr).
    + rewrite Hr. exact R0.
  - unfold h1, h0. rewrite upd_length, app_length. lia.
  - exact (ref_ok_mono _ _ _ SK1 R0).
  - unfold v1. destruct s'; reflexivity.
  - apply R. exact Eid.
  - intros j Hj Hn. unfold h1. rewrite nth_error_upd_neq by congruence. unfold h0. apply nth_error_app1. exact Hj.
  - unfold v1. destruct s' as [k'|n']; cbn [visited mk_ref fits cid step1].
    + unfold get_obj. rewrite Elast. cbn [mk_cell]. reflexivity.
    + unfold get_list. rewrite Elast. cbn [mk_cell]. rewrite l_get_nil. reflexivity.
Qed.

(* the leaf write *)
Lemma leaf_step h v c c' :
  heap_wf h -> nth_error h (cid v) = Some c -> same_kind c c' ->
  (forall z, In z (members c') -> ref_ok h z) ->
  let h1 := upd h (cid v) c' in
  heap_wf h1 /\ same_kinds h h1 /\ (length h <= length h1)%nat /\ nth_error h1 (cid v) = Some c'
  /\ (forall j, (j < length h)%nat -> j <> cid v -> nth_error h1 j = nth_error h j).
Proof. intros W E K M h1.
  split; [exact (heap_wf_upd h (cid v) c c' W E K M)|]. split; [exact (same_kinds_upd h (cid v) c c' E K)|].
  split; [unfold h1; rewrite upd_length; lia|]. split.
  - apply nth_error_upd_eq. apply nth_error_Some. congruence.
  - intros j _ Hn. apply nth_error_upd_neq. congruence. Qed.


(* --- slots: a cell c' agrees with c on every slot other than the one addressed by s --- *)
Definition slot_same (s : seg) (c c' : cell) : Prop :=
  match s, c, c' with
  | Key k, CObj kvs, CObj kvs' => forall k', k' <> k -> alookup k' kvs' = alookup k' kvs
  | Idx n, CList l, CList l' =>
      (forall j, j <> n -> (j < length l)%nat -> nth_error l' j = nth_error l j) /\
      (forall j, (length l <= j)%nat -> j <> n -> (j < length l')%nat -> nth_error l' j = Some HNil)
  | _, _, _ => False
  end.
Definition slot_kept (h h1 : heap) (id : nat) (s : seg) : Prop :=
  exists c c1, nth_error h id = Some c /\ nth_error h1 id = Some c1 /\ slot_same s c c1.

Lemma nth_error_repeat_list {A} (x : A) n j : (j < n)%nat -> nth_error (repeat_list x n) j = Some x.
Proof. revert j. induction n as [|n IH]; intros j H; [lia|]. destruct j as [|j]; cbn [repeat_list nth_error]; [reflexivity|].
  apply IH. lia. Qed.

Lemma slot_same_aset k y kvs : slot_same (Key k) (CObj kvs) (CObj (aset k y kvs)).
Proof. intros k' N. apply alookup_aset_neq. exact N. Qed.
Lemma slot_same_pad l n y : (length l <= n)%nat -> slot_same (Idx n) (CList l) (CList (pad_add l (Z.of_nat n) y)).
Proof. intros H. unfold pad_add. replace (Z.to_nat (Z.of_nat n - Z.of_nat (length l))) with (n - length l)%nat by lia. split.
  - intros j _ Hj. apply nth_error_app1. exact Hj.
  - intros j Hj Hn Hl. rewrite !app_length, repeat_list_length in Hl. cbn [length] in Hl.
    rewrite nth_error_app2 by exact Hj. rewrite nth_error_app1 by (rewrite repeat_list_length; lia).
    apply nth_error_repeat_list. lia. Qed.
Lemma slot_same_upd l n y : slot_same (Idx n) (CList l) (CList (upd l n y)).
Proof. split.
  - intros j Hn _. apply nth_error_upd_neq. congruence.
  - intros j Hj _ Hl. rewrite upd_length in Hl. lia. Qed.
Lemma slot_same_refl_step h v s c x : nth_error h (cid v) = Some c -> step1 h v s = Ok x -> slot_same s c c.
Proof. intros E S1. destruct s as [k|n]; destruct v as [| b | z | bits | str | id | id]; cbn [step1 cid] in *; try discriminate.
  - unfold get_obj in S1. rewrite E in S1. destruct c as [l|kvs]; [discriminate|]. intros k' _. reflexivity.
  - unfold get_list in S1. rewrite E in S1. destruct c as [l|kvs]; [|discriminate]. split; [reflexivity | intros; lia]. Qed.

Lemma l_get_oob l i : Z.of_nat (length l) <= i -> l_get l i = Panic.
Proof. intros H. unfold l_get, in_range.
  assert (C : (0 <=? i) && (i <? Z.of_nat (length l)) = false) by lia. rewrite C. reflexivity. Qed.

(* what one non-leaf step of SetTF establishes: it continues in heap h1 at container v1 *)
Definition step_post (h : heap) (v : hval) (s s' : seg) (t : list seg) (h1 : heap) (v1 : hval) : Prop :=
  heap_wf h1 /\ same_kinds h h1 /\ (length h <= length h1)%nat /\ ref_ok h1 v1 /\ fits v1 s' = true /\ step1 h1 v s = Ok v1
  /\ (forall j, (j < length h)%nat -> j <> cid v -> nth_error h1 j = nth_error h j)
  /\ ((h1 = h /\ step1 h v s = Ok v1)
      \/ (visited h1 v1 (s' :: t) = [length h] /\ forall x0, step1 h v s = Ok x0 -> fits x0 s' = false))
  /\ slot_kept h h1 (cid v) s.

Lemma fresh_step_post h v s s' t c c' :
  heap_wf h -> nth_error h (cid v) = Some c -> same_kind c c' ->
  (forall z, In z (members c') -> ref_ok h z \/ z = mk_ref s' (length h)) ->
  (forall h2, nth_error h2 (cid v) = Some c' -> step1 h2 v s = Ok (mk_ref s' (length h))) ->
  slot_same s c c' ->
  (forall x0, step1 h v s = Ok x0 -> fits x0 s' = false) ->
  step_post h v s s' t (upd (h ++ [mk_cell s']) (cid v) c') (mk_ref s' (length h)).
Proof. intros W E K M R Sl Mis. destruct (fresh_step h v s s' t c c' W E K M R) as (A1 & A2 & A3 & A4 & A5 & A6 & A7 & A8).
  unfold step_post. repeat (split; [assumption|]). split; [right; split; [exact A8 | exact Mis]|].
  exists c, c'. split; [exact E|]. split; [|exact Sl].
  apply nth_error_upd_eq. rewrite app_length. cbn [length].
  assert ((cid v < length h)%nat) by (apply nth_error_Some; congruence). lia. Qed.

Lemma follow_post h v s s' t c v1 :
  heap_wf h -> nth_error h (cid v) = Some c -> step1 h v s = Ok v1 -> fits v1 s' = true ->
  step_post h v s s' t h v1.
Proof. intros W E S1 F. unfold step_post.
  split; [exact W|]. split; [apply same_kinds_refl|]. split; [lia|].
  split; [exact (proj1 (heap_wf_iff h) W _ _ E _ (step1_In _ _ _ _ _ E S1))|].
  split; [exact F|]. split; [exact S1|]. split; [reflexivity|]. split; [left; split; [reflexivity | exact S1]|].
  exists c, c. split; [exact E|]. split; [exact E|]. exact (slot_same_refl_step h v s c v1 E S1). Qed.

Lemma wf_member h id c z : heap_wf h -> nth_error h id = Some c -> In z (members c) -> ref_ok h z.
Proof. intros W E Hin. exact (proj1 (heap_wf_iff h) W _ _ E _ Hin). Qed.

Lemma set_tf_step s s' t f h v x :
  ok_seg s = true -> heap_wf h -> ref_ok h v -> fits v s = true ->
  exists h1 v1, set_tf (S f) h v (render_path (s :: s' :: t)) x = set_tf f h1 v1 (render_path (s' :: t)) x
                /\ step_post h v s s' t h1 v1.
Proof.
  intros Hs W Hv Hf. pose proof (word_ok s Hs) as Hw.
  destruct v as [| b | z | bits | str | id | id]; destruct s as [k|n]; try discriminate Hf; clear Hf.
  - (* a list, index n *)
    destruct Hv as [l Hgl].
    assert (En : nth_error h (cid (HL id)) = Some (CList l)).
    { cbn [cid]. unfold get_list in Hgl. destruct (nth_error h id) as [[l0|kvs]|]; congruence. }
    assert (S1eq : step1 h (HL id) (Idx n) = l_get l (Z.of_nat n)) by (cbn [step1]; rewrite Hgl; reflexivity).
    rewrite render_path_cons, set_tf_S. cbn [sigil]. rewrite Hgl.
    rewrite valid_head_word by apply Hw. rewrite (split_tf_word _ _ Hw).
    destruct s' as [k'|n']; cbv beta iota zeta;
      rewrite firstn_length_app, skipn_length_app; cbn [word]; rewrite (pint0_idx n Hs).
    + (* next is a key: an object is needed at index n *)
      destruct (Z.of_nat (length l) <=? Z.of_nat n) eqn:Hc.
      * unfold alloc. cbv beta iota zeta. eexists _, _. split; [reflexivity|].
        apply (fresh_step_post h (HL id) (Idx n) (Key k') t (CList l) (CList (pad_add l (Z.of_nat n) (HO (length h)))) W En I).
        -- cbn [members mk_ref]. intros z0 Hz. apply In_pad_add in Hz as [Hz|[Hz|Hz]].
           ++ left. exact (wf_member h _ _ z0 W En Hz).
           ++ left. rewrite Hz. exact I.
           ++ right. exact Hz.
        -- intros h2 E2. cbn [step1 mk_ref]. cbn [cid] in E2. unfold get_list. rewrite E2. apply l_get_pad_add. lia.
        -- apply slot_same_pad. lia.
        -- intros x0 S0. rewrite S1eq, l_get_oob in S0 by lia. discriminate.
      * assert (C : in_range (Z.of_nat n) (length l) = true) by (unfold in_range; lia).
        assert (Fresh : (forall x0, step1 h (HL id) (Idx n) = Ok x0 -> fits x0 (Key k') = false) ->
                  exists h1 v1,
                  (let '(h1, o) := alloc h (CObj []) in
                   match l_replace l (Z.of_nat n) (HO o) with
                   | Ok l' => set_tf f (set_list h1 id l') (HO o) (render_path (Key k' :: t)) x
                   | Panic => (h1, true)
                   end) = set_tf f h1 v1 (render_path (Key k' :: t)) x
                  /\ step_post h (HL id) (Idx n) (Key k') t h1 v1).
        { intros Mis. unfold alloc, l_replace. rewrite C. cbv beta iota zeta. eexists _, _. split; [reflexivity|].
          apply (fresh_step_post h (HL id) (Idx n) (Key k') t (CList l) (CList (upd l (Z.to_nat (Z.of_nat n)) (HO (length h)))) W En I).
          -- cbn [members mk_ref]. intros z0 Hz. apply In_upd in Hz as [Hz|Hz].
             ++ left. exact (wf_member h _ _ z0 W En Hz).
             ++ right. exact Hz.
          -- intros h2 E2. cbn [step1 mk_ref]. cbn [cid] in E2. unfold get_list. rewrite E2. apply l_get_upd. lia.
          -- rewrite Nat2Z.id. apply slot_same_upd.
          -- exact Mis. }
        rewrite l_typeof_get. destruct (l_get l (Z.of_nat n)) as [x'|] eqn:G.
        2:{ apply Fresh. intros x0 S0. rewrite S1eq in S0; try rewrite G in S0. discriminate. }
        destruct x' as [| b | z | bits | str | o | o]; cbn [hkind]; cbv iota;
          try (apply Fresh; intros x0 S0; rewrite S1eq in S0; try rewrite G in S0; injection S0 as <-; reflexivity).
        eexists _, _. split; [reflexivity|].
        apply (follow_post h (HL id) (Idx n) (Key k') t (CList l) (HO o) W En); [|reflexivity].
        first [exact S1eq | rewrite S1eq; exact G].
    + (* next is an index: a list is needed at index n *)
      destruct (Z.of_nat (length l) <=? Z.of_nat n) eqn:Hc.
      * unfold alloc. cbv beta iota zeta. eexists _, _. split; [reflexivity|].
        apply (fresh_step_post h (HL id) (Idx n) (Idx n') t (CList l) (CList (pad_add l (Z.of_nat n) (HL (length h)))) W En I).
        -- cbn [members mk_ref]. intros z0 Hz. apply In_pad_add in Hz as [Hz|[Hz|Hz]].
           ++ left. exact (wf_member h _ _ z0 W En Hz).
           ++ left. rewrite Hz. exact I.
           ++ right. exact Hz.
        -- intros h2 E2. cbn [step1 mk_ref]. cbn [cid] in E2. unfold get_list. rewrite E2. apply l_get_pad_add. lia.
        -- apply slot_same_pad. lia.
        -- intros x0 S0. rewrite S1eq, l_get_oob in S0 by lia. discriminate.
      * assert (C : in_range (Z.of_nat n) (length l) = true) by (unfold in_range; lia).
        assert (Fresh : (forall x0, step1 h (HL id) (Idx n) = Ok x0 -> fits x0 (Idx n') = false) ->
                  exists h1 v1,
                  (let '(h1, o) := alloc h (CList []) in
                   match l_replace l (Z.of_nat n) (HL o) with
                   | Ok l' => set_tf f (set_list h1 id l') (HL o) (render_path (Idx n' :: t)) x
                   | Panic => (h1, true)
                   end) = set_tf f h1 v1 (render_path (Idx n' :: t)) x
                  /\ step_post h (HL id) (Idx n) (Idx n') t h1 v1).
        { intros Mis. unfold alloc, l_replace. rewrite C. cbv beta iota zeta. eexists _, _. split; [reflexivity|].
          apply (fresh_step_post h (HL id) (Idx n) (Idx n') t (CList l) (CList (upd l (Z.to_nat (Z.of_nat n)) (HL (length h)))) W En I).
          -- cbn [members mk_ref]. intros z0 Hz. apply In_upd in Hz as [Hz|Hz].
             ++ left. exact (wf_member h _ _ z0 W En Hz).
             ++ right. exact Hz.
          -- intros h2 E2. cbn [step1 mk_ref]. cbn [cid] in E2. unfold get_list. rewrite E2. apply l_get_upd. lia.
          -- rewrite Nat2Z.id. apply slot_same_upd.
          -- exact Mis. }
        rewrite l_typeof_get. destruct (l_get l (Z.of_nat n)) as [x'|] eqn:G.
        2:{ apply Fresh. intros x0 S0. rewrite S1eq in S0; try rewrite G in S0. discriminate. }
        destruct x' as [| b | z | bits | str | o | o]; cbn [hkind]; cbv iota;
          try (apply Fresh; intros x0 S0; rewrite S1eq in S0; try rewrite G in S0; injection S0 as <-; reflexivity).
        eexists _, _. split; [reflexivity|].
        apply (follow_post h (HL id) (Idx n) (Idx n') t (CList l) (HL o) W En); [|reflexivity].
        first [exact S1eq | rewrite S1eq; exact G].
  - (* an object, key k *)
    destruct Hv as [kvs Hgo].
    assert (En : nth_error h (cid (HO id)) = Some (CObj kvs)).
    { cbn [cid]. unfold get_obj in Hgo. destruct (nth_error h id) as [[l0|kvs0]|]; congruence. }
    assert (S1eq : step1 h (HO id) (Key k) = match alookup k kvs with Some y => Ok y | None => Panic end)
      by (cbn [step1]; rewrite Hgo; reflexivity).
    rewrite render_path_cons, set_tf_S. cbn [sigil]. rewrite Hgo.
    rewrite valid_head_word by apply Hw. rewrite (split_tf_word _ _ Hw).
    destruct s' as [k'|n']; cbv beta iota zeta;
      rewrite firstn_length_app, skipn_length_app; cbn [word].
    + assert (Fresh : (forall x0, step1 h (HO id) (Key k) = Ok x0 -> fits x0 (Key k') = false) ->
                  exists h1 v1,
                  (let '(h1, o) := alloc h (CObj []) in
                   set_tf f (set_obj h1 id (aset k (HO o) kvs)) (HO o) (render_path (Key k' :: t)) x)
                  = set_tf f h1 v1 (render_path (Key k' :: t)) x
                  /\ step_post h (HO id) (Key k) (Key k') t h1 v1).
      { intros Mis. unfold alloc. cbv beta iota zeta. eexists _, _. split; [reflexivity|].
        apply (fresh_step_post h (HO id) (Key k) (Key k') t (CObj kvs) (CObj (aset k (HO (length h)) kvs)) W En I).
        -- cbn [members mk_ref]. intros z0 Hz. apply In_aset_snd in Hz as [Hz|Hz].
           ++ left. exact (wf_member h _ _ z0 W En Hz).
           ++ right. exact Hz.
        -- intros h2 E2. cbn [step1 mk_ref]. cbn [cid] in E2. unfold get_obj. rewrite E2. unfold o_get.
           rewrite alookup_aset_eq. reflexivity.
        -- apply slot_same_aset.
        -- exact Mis. }
      destruct (alookup k kvs) as [x'|] eqn:G.
      2:{ apply Fresh. intros x0 S0. rewrite S1eq in S0; try rewrite G in S0. discriminate. }
      destruct x' as [| b | z | bits | str | o | o];
        try (apply Fresh; intros x0 S0; rewrite S1eq in S0; try rewrite G in S0; injection S0 as <-; reflexivity).
      eexists _, _. split; [reflexivity|].
      apply (follow_post h (HO id) (Key k) (Key k') t (CObj kvs) (HO o) W En); [|reflexivity].
      first [exact S1eq | rewrite S1eq, G; reflexivity].
    + assert (Fresh : (forall x0, step1 h (HO id) (Key k) = Ok x0 -> fits x0 (Idx n') = false) ->
                  exists h1 v1,
                  (let '(h1, o) := alloc h (CList []) in
                   set_tf f (set_obj h1 id (aset k (HL o) kvs)) (HL o) (render_path (Idx n' :: t)) x)
                  = set_tf f h1 v1 (render_path (Idx n' :: t)) x
                  /\ step_post h (HO id) (Key k) (Idx n') t h1 v1).
      { intros Mis. unfold alloc. cbv beta iota zeta. eexists _, _. split; [reflexivity|].
        apply (fresh_step_post h (HO id) (Key k) (Idx n') t (CObj kvs) (CObj (aset k (HL (length h)) kvs)) W En I).
        -- cbn [members mk_ref]. intros z0 Hz. apply In_aset_snd in Hz as [Hz|Hz].
           ++ left. exact (wf_member h _ _ z0 W En Hz).
           ++ right. exact Hz.
        -- intros h2 E2. cbn [step1 mk_ref]. cbn [cid] in E2. unfold get_obj. rewrite E2. unfold o_get.
           rewrite alookup_aset_eq. reflexivity.
        -- apply slot_same_aset.
        -- exact Mis. }
      destruct (alookup k kvs) as [x'|] eqn:G.
      2:{ apply Fresh. intros x0 S0. rewrite S1eq in S0; try rewrite G in S0. discriminate. }
      destruct x' as [| b | z | bits | str | o | o];
        try (apply Fresh; intros x0 S0; rewrite S1eq in S0; try rewrite G in S0; injection S0 as <-; reflexivity).
      eexists _, _. split; [reflexivity|].
      apply (follow_post h (HO id) (Key k) (Idx n') t (CObj kvs) (HL o) W En); [|reflexivity].
      first [exact S1eq | rewrite S1eq, G; reflexivity].
Qed.

Lemma set_tf_leaf s f h v x :
  ok_seg s = true -> heap_wf h -> ref_ok h v -> ref_ok h x -> fits v s = true ->
  exists h', set_tf (S f) h v (render_path [s]) x = (h', false)
             /\ heap_wf h' /\ same_kinds h h' /\ (length h <= length h')%nat /\ step1 h' v s = Ok x
             /\ (forall j, (j < length h)%nat -> j <> cid v -> nth_error h' j = nth_error h j)
             /\ slot_kept h h' (cid v) s.
Proof.
  intros Hs W Hv Hx Hf. pose proof (word_ok s Hs) as Hw.
  destruct v as [| b | z | bits | str | id | id]; destruct s as [k|n]; try discriminate Hf; clear Hf.
  - destruct Hv as [l Hgl].
    assert (En : nth_error h (cid (HL id)) = Some (CList l)).
    { cbn [cid]. unfold get_list in Hgl. destruct (nth_error h id) as [[l0|kvs]|]; congruence. }
    rewrite render_path_cons, set_tf_S. cbn [sigil]. rewrite Hgl.
    rewrite valid_head_word by apply Hw. rewrite (split_tf_word _ _ Hw). cbv beta iota zeta.
    cbn [render_path flat_map]. rewrite app_nil_r. cbn [word]. rewrite (pint0_idx n Hs).
    destruct (Z.of_nat (length l) <=? Z.of_nat n) eqn:Hc.
    + eexists. split; [reflexivity|].
      destruct (leaf_step h (HL id) (CList l) (CList (pad_add l (Z.of_nat n) x)) W En I) as (A1 & A2 & A3 & A4 & A5).
      { cbn [members]. intros z0 Hz. apply In_pad_add in Hz as [Hz|[Hz|Hz]].
        - exact (wf_member h _ _ z0 W En Hz).
        - rewrite Hz. exact I.
        - rewrite Hz. exact Hx. }
      unfold set_list. cbn [cid] in *. repeat (split; [assumption|]). split; [|split; [exact A5|]].
      * cbn [step1]. unfold get_list. rewrite A4. apply l_get_pad_add. lia.
      * eexists _, _. split; [exact En|]. split; [exact A4|]. apply slot_same_pad. lia.
    + assert (C : in_range (Z.of_nat n) (length l) = true) by (unfold in_range; lia).
      unfold l_replace. rewrite C. eexists. split; [reflexivity|].
      destruct (leaf_step h (HL id) (CList l) (CList (upd l (Z.to_nat (Z.of_nat n)) x)) W En I) as (A1 & A2 & A3 & A4 & A5).
      { cbn [members]. intros z0 Hz. apply In_upd in Hz as [Hz|Hz].
        - exact (wf_member h _ _ z0 W En Hz).
        - rewrite Hz. exact Hx. }
      unfold set_list. cbn [cid] in *. repeat (split; [assumption|]). split; [|split; [exact A5|]].
      * cbn [step1]. unfold get_list. rewrite A4. apply l_get_upd. lia.
      * eexists _, _. split; [exact En|]. split; [exact A4|]. rewrite Nat2Z.id. apply slot_same_upd.
  - destruct Hv as [kvs Hgo].
    assert (En : nth_error h (cid (HO id)) = Some (CObj kvs)).
    { cbn [cid]. unfold get_obj in Hgo. destruct (nth_error h id) as [[l0|kvs0]|]; congruence. }
    rewrite render_path_cons, set_tf_S. cbn [sigil]. rewrite Hgo.
    rewrite valid_head_word by apply Hw. rewrite (split_tf_word _ _ Hw). cbv beta iota zeta.
    cbn [render_path flat_map]. rewrite app_nil_r. cbn [word].
    eexists. split; [reflexivity|].
    destruct (leaf_step h (HO id) (CObj kvs) (CObj (aset k x kvs)) W En I) as (A1 & A2 & A3 & A4 & A5).
    { cbn [members]. intros z0 Hz. apply In_aset_snd in Hz as [Hz|Hz].
      - exact (wf_member h _ _ z0 W En Hz).
      - rewrite Hz. exact Hx. }
    unfold set_obj. cbn [cid] in *. repeat (split; [assumption|]). split; [|split; [exact A5|]].
    * cbn [step1]. unfold get_obj. rewrite A4. unfold o_get. rewrite alookup_aset_eq. reflexivity.
    * eexists _, _. split; [exact En|]. split; [exact A4|]. apply slot_same_aset.
Qed.

Lemma visited_cons h v s t : fits v s = true ->
  visited h v (s :: t) = cid v :: match step1 h v s with Ok x => visited h x t | Panic => [] end.
Proof. intros F. cbn [visited]. rewrite F. reflexivity. Qed.

(* the slots (container id, segment) an existing navigation reads *)
Fixpoint slots (h : heap) (v : hval) (p : list seg) : list (nat * seg) :=
  match p with
  | [] => []
  | s :: t => if fits v s
              then (cid v, s) :: match step1 h v s with Ok x => slots h x t | Panic => [] end
              else []
  end.
Lemma slots_cons h v s t : fits v s = true ->
  slots h v (s :: t) = (cid v, s) :: match step1 h v s with Ok x => slots h x t | Panic => [] end.
Proof. intros F. cbn [slots]. rewrite F. reflexivity. Qed.
Lemma slots_misfit h v s t : fits v s = false -> slots h v (s :: t) = [].
Proof. intros F. cbn [slots]. rewrite F. reflexivity. Qed.

(* the general statement: any sufficient fuel; also says which cells may have changed, and which slots in them *)
Lemma set_tf_gen : forall p, p <> [] -> forallb ok_seg p = true ->
  forall fuel h v x, (length (render_path p) < fuel)%nat ->
  heap_wf h -> ref_ok h v -> ref_ok h x -> starts_ok v p -> NoDup (visited h v p) ->
  exists h', set_tf fuel h v (render_path p) x = (h', false)
             /\ heap_wf h' /\ same_kinds h h' /\ (length h <= length h')%nat
             /\ (forall j, (j < length h)%nat -> ~ In j (visited h v p) -> nth_error h' j = nth_error h j)
             /\ nav h' v p = Ok x
             /\ (forall id s0, In (id, s0) (slots h v p) -> slot_kept h h' id s0).
Proof.
  induction p as [|s t IH]; intros Hne Hok fuel h v x Hfu W Hv Hx Hst Hnd; [congruence|].
  cbn [forallb] in Hok. apply andb_true_iff in Hok as [Hs Ht].
  apply starts_ok_fits in Hst. rename Hst into Hfit.
  destruct fuel as [|f]; [lia|].
  pose proof (visited_cons h v s t Hfit) as Hvis.
  pose proof (slots_cons h v s t Hfit) as Hslo.
  destruct t as [|s' t'].
  - destruct (set_tf_leaf s f h v x Hs W Hv Hx Hfit) as (h' & E & W' & SK & L & S1 & Fr & Sl).
    exists h'. split; [exact E|]. split; [exact W'|]. split; [exact SK|]. split; [exact L|]. split; [|split].
    + intros j Hj Hn. apply Fr; [exact Hj|]. intros ->. apply Hn. rewrite Hvis. left. reflexivity.
    + rewrite nav_cons, S1. reflexivity.
    + intros id s0 Hin. rewrite Hslo in Hin. destruct Hin as [Hin|Hin].
      * injection Hin as <- <-. exact Sl.
      * destruct (step1 h v s); contradiction.
  - destruct (set_tf_step s s' t' f h v x Hs W Hv Hfit) as (h1 & v1 & E & P).
    destruct P as (W1 & SK1 & L1 & R1 & F1 & S1 & Fr1 & D & Sl).
    destruct (fits_cell h v s Hfit Hv) as (c & Ec & _).
    assert (Hlt : (cid v < length h)%nat) by (apply nth_error_Some; congruence).
    assert (Hnd1 : NoDup (visited h1 v1 (s' :: t')) /\ ~ In (cid v) (visited h1 v1 (s' :: t'))).
    { destruct D as [[-> S0]|[D _]].
      - rewrite Hvis, S0 in Hnd. inversion Hnd as [|a l0 Hni Hnd']. subst. split; assumption.
      - rewrite D. split; [constructor; [intros []|constructor]|]. intros [Hc|[]]. lia. }
    destruct Hnd1 as [Hnd1 Hni1].
    destruct (IH ltac:(discriminate) Ht f h1 v1 x (render_tail_fuel _ _ _ Hfu) W1 R1 (ref_ok_mono _ _ _ SK1 Hx)
                 (proj2 (starts_ok_fits v1 s' t') F1) Hnd1) as (h' & E' & W' & SK' & L' & Fr' & N' & SF').
    assert (Ecid : nth_error h' (cid v) = nth_error h1 (cid v)) by (apply Fr'; [lia | exact Hni1]).
    exists h'. rewrite E. split; [exact E'|]. split; [exact W'|].
    split; [exact (same_kinds_trans _ _ _ SK1 SK')|]. split; [lia|]. split; [|split].
    + intros j Hj Hn.
      assert (Hjc : j <> cid v) by (intros ->; apply Hn; rewrite Hvis; left; reflexivity).
      rewrite <- (Fr1 j Hj Hjc). apply Fr'; [lia|].
      destruct D as [[-> S0]|[D _]].
      * intros Hin. apply Hn. rewrite Hvis, S0. right. exact Hin.
      * rewrite D. intros [Hc|[]]. lia.
    + rewrite nav_cons. rewrite (step1_ext h1 h' v s) by exact Ecid.
      rewrite S1. exact N'.
    + intros id s0 Hin. rewrite Hslo in Hin. destruct Hin as [Hin|Hin].
      * injection Hin as <- <-. destruct Sl as (c0 & c1 & A & B & C).
        exists c0, c1. split; [exact A|]. split; [rewrite Ecid; exact B | exact C].
      * destruct D as [[-> S0]|[D Mis]].
        -- rewrite S0 in Hin. exact (SF' id s0 Hin).
        -- destruct (step1 h v s) as [x0|] eqn:S0; [|contradiction].
           rewrite (slots_misfit h x0 s' t' (Mis x0 eq_refl)) in Hin. contradiction.
Qed.

(* SetTF on a well-formed path never panics, keeps the heap well-formed, and GetTF reads the value back.
   Added hypothesis (necessary, see the counterexample below): the existing navigation along p does not pass
   twice through the same container.  Nothing is required of x (it may be any container, even one on the path). *)
Theorem set_tf_ok : forall p h v x, heap_wf h -> ref_ok h v -> ref_ok h x -> p <> [] -> forallb ok_seg p = true -> starts_ok v p ->
  NoDup (visited h v p) ->
  let '(h', panicked) := set_tf (S (length (render_path p))) h v (render_path p) x in
  panicked = false /\ heap_wf h' /\ get_tf (S (length (render_path p))) h' v (render_path p) = Ok x.
Proof.
  intros p h v x W Hv Hx Hne Hok Hst Hnd.
  destruct (set_tf_gen p Hne Hok (S (length (render_path p))) h v x ltac:(lia) W Hv Hx Hst Hnd)
    as (h' & E & W' & SK & L & Fr & N & _).
  rewrite E. split; [reflexivity|]. split; [exact W'|].
  rewrite (get_tf_nav p h' v Hne Hok). exact N.
Qed.

(* ================= T8, second part : UnsetTF ================= *)
(* the effect of UnsetTF at the last container *)
Definition unset_leaf (h : heap) (c : hval) (s : seg) : heap * bool :=
  match s, c with
  | Key k, HO id => match get_obj h id with
                    | Some kvs => (set_obj h id (aremove k kvs), false)
                    | None => (h, true) end
  | Idx n, HL id => match get_list h id with
                    | Some l => let '(l', p) := l_delete l [Z.of_nat n] in (set_list h id l', p)
                    | None => (h, true) end
  | _, _ => (h, true)
  end.
Fixpoint unset_spec (h : heap) (v : hval) (p : list seg) : heap * bool :=
  match p with
  | [] => (h, true)
  | s :: t => match t with
              | [] => unset_leaf h v s
              | _ :: _ => match step1 h v s with Ok x => unset_spec h x t | Panic => (h, true) end
              end
  end.
Lemma unset_spec_one h v s : unset_spec h v [s] = unset_leaf h v s.
Proof. reflexivity. Qed.
Lemma unset_spec_cons2 h v s s' t :
  unset_spec h v (s :: s' :: t) = match step1 h v s with Ok x => unset_spec h x (s' :: t) | Panic => (h, true) end.
Proof. reflexivity. Qed.

Lemma unset_tf_spec_gen : forall p, p <> [] -> forallb ok_seg p = true ->
  forall fuel h v, (length (render_path p) < fuel)%nat -> unset_tf fuel h v (render_path p) = unset_spec h v p.
Proof.
  induction p as [|s t IH]; intros Hne Hok fuel h v Hf; [congruence|].
  cbn [forallb] in Hok. apply andb_true_iff in Hok as [Hs Ht].
  pose proof (word_ok s Hs) as Hw.
  destruct fuel as [|f]; [lia|].
  apply render_tail_fuel in Hf.
  rewrite render_path_cons. rewrite unset_tf_S.
  destruct v as [| b | z | bits | str | id | id]; try (destruct s; destruct t; reflexivity).
  - destruct s as [k|n].
    + cbn [sigil]. rewrite valid_head_other by reflexivity. destruct (get_list h id); destruct t; reflexivity.
    + cbn [sigil]. destruct (get_list h id) as [l|] eqn:Hgl.
      2:{ destruct t; [rewrite unset_spec_one | rewrite unset_spec_cons2]; cbn [unset_leaf step1]; rewrite Hgl; reflexivity. }
      rewrite valid_head_word by apply Hw. rewrite split_tf_word by exact Hw.
      destruct t as [|[k'|n'] t'].
      * cbn [render_path flat_map]. rewrite app_nil_r. cbn [word]. rewrite pint0_idx by exact Hs.
        rewrite unset_spec_one. cbn [unset_leaf]. rewrite Hgl. reflexivity.
      * rewrite firstn_length_app, skipn_length_app. cbn [word]. rewrite pint0_idx by exact Hs.
        rewrite unset_spec_cons2. cbn [step1]. rewrite Hgl.
        destruct (l_get l (Z.of_nat n)) as [x|]; [|reflexivity].
        destruct x; try (destruct t'; reflexivity). apply IH; [discriminate | exact Ht | exact Hf].
      * rewrite firstn_length_app, skipn_length_app. cbn [word]. rewrite pint0_idx by exact Hs.
        rewrite unset_spec_cons2. cbn [step1]. rewrite Hgl.
        destruct (l_get l (Z.of_nat n)) as [x|]; [|reflexivity].
        destruct x; try (destruct t'; reflexivity). apply IH; [discriminate | exact Ht | exact Hf].
  - destruct s as [k|n].
    + cbn [sigil]. destruct (get_obj h id) as [kvs|] eqn:Hgo.
      2:{ destruct t; [rewrite unset_spec_one | rewrite unset_spec_cons2]; cbn [unset_leaf step1]; rewrite Hgo; reflexivity. }
      rewrite valid_head_word by apply Hw. rewrite split_tf_word by exact Hw.
      destruct t as [|[k'|n'] t'].
      * cbn [render_path flat_map]. rewrite app_nil_r. cbn [word].
        rewrite unset_spec_one. cbn [unset_leaf]. rewrite Hgo. reflexivity.
      * rewrite firstn_length_app, skipn_length_app. cbn [word].
        rewrite unset_spec_cons2. cbn [step1]. rewrite Hgo.
        destruct (o_get kvs k) as [x|]; [|reflexivity].
        destruct x; try (destruct t'; reflexivity). apply IH; [discriminate | exact Ht | exact Hf].
      * rewrite firstn_length_app, skipn_length_app. cbn [word].
        rewrite unset_spec_cons2. cbn [step1]. rewrite Hgo.
        destruct (o_get kvs k) as [x|]; [|reflexivity].
        destruct x; try (destruct t'; reflexivity). apply IH; [discriminate | exact Ht | exact Hf].
    + cbn [sigil]. rewrite valid_head_other by reflexivity. destruct (get_obj h id); destruct t; reflexivity.
Qed.

(* in terms of nav: go to the last container, delete there *)
Lemma unset_spec_nav : forall q s h v,
  unset_spec h v (q ++ [s]) = match nav h v q with Ok c => unset_leaf h c s | Panic => (h, true) end.
Proof. induction q as [|s0 q IH]; intros s h v.
  - reflexivity.
  - rewrite nav_cons. destruct q as [|s1 q'].
    + cbn [app]. rewrite unset_spec_cons2. destruct (step1 h v s0); reflexivity.
    + change ((s0 :: s1 :: q') ++ [s]) with (s0 :: s1 :: (q' ++ [s])). rewrite unset_spec_cons2.
      destruct (step1 h v s0) as [x|]; [|reflexivity]. apply (IH s h x). Qed.

Theorem unset_tf_nav : forall q s h v, forallb ok_seg (q ++ [s]) = true ->
  unset_tf (S (length (render_path (q ++ [s])))) h v (render_path (q ++ [s]))
  = match nav h v q with Ok c => unset_leaf h c s | Panic => (h, true) end.
Proof. intros q s h v Hok. rewrite unset_tf_spec_gen; [apply unset_spec_nav | destruct q; discriminate | exact Hok | lia]. Qed.


Lemma l_delete1 l i : l_delete l [i] = if in_range i (length l) then (remove_nth (Z.to_nat i) l, false) else (l, true).
Proof. reflexivity. Qed.

Lemma nav_snoc : forall q s h v, nav h v (q ++ [s]) = match nav h v q with Ok c => step1 h c s | Panic => Panic end.
Proof. induction q as [|s0 q IH]; intros s h v.
  - cbn [app]. rewrite nav_cons. cbn [nav]. destruct (step1 h v s); reflexivity.
  - cbn [app]. rewrite !nav_cons. destruct (step1 h v s0) as [x|]; [apply IH | reflexivity]. Qed.

Lemma aremove_absent {A} k (kvs : list (bytes * A)) : alookup k kvs = None -> aremove k kvs = kvs.
Proof. induction kvs as [|[k' y] t IH]; cbn [alookup aremove]; [reflexivity|].
  destruct (bytes_eqb k k'); [discriminate|]. intros H. f_equal. exact (IH H). Qed.

Lemma upd_same {A} (l : list A) n x : nth_error l n = Some x -> upd l n x = l.
Proof. revert n. induction l as [|a l IH]; intros [|n]; cbn [nth_error upd]; try discriminate.
  - intros H. injection H as ->. reflexivity.
  - intros H. f_equal. exact (IH n H). Qed.

(* UnsetTF on a path that exists removes exactly the addressed field / element from the last container *)
Theorem unset_tf_ok : forall q s h v y, forallb ok_seg (q ++ [s]) = true -> nav h v (q ++ [s]) = Ok y ->
  exists c, nav h v q = Ok c /\
    match s, c with
    | Key k, HO id => exists kvs, get_obj h id = Some kvs /\ alookup k kvs = Some y /\
         unset_tf (S (length (render_path (q ++ [s])))) h v (render_path (q ++ [s])) = (set_obj h id (aremove k kvs), false)
    | Idx n, HL id => exists l, get_list h id = Some l /\ nth_error l n = Some y /\
         unset_tf (S (length (render_path (q ++ [s])))) h v (render_path (q ++ [s])) = (set_list h id (remove_nth n l), false)
    | _, _ => False
    end.
Proof.
  intros q s h v y Hok Hnav. rewrite (unset_tf_nav q s h v Hok). rewrite nav_snoc in Hnav.
  destruct (nav h v q) as [c|]; [|discriminate]. exists c. split; [reflexivity|].
  destruct s as [k|n]; destruct c as [| b | z | bits | str | id | id]; cbn [step1] in Hnav; try discriminate; cbn [unset_leaf].
  - destruct (get_obj h id) as [kvs|]; [|discriminate]. exists kvs. split; [reflexivity|]. split; [|reflexivity].
    unfold o_get in Hnav. destruct (alookup k kvs); congruence.
  - destruct (get_list h id) as [l|]; [|discriminate]. exists l. split; [reflexivity|].
    rewrite l_delete1. unfold l_get in Hnav. destruct (in_range (Z.of_nat n) (length l)); [|discriminate].
    rewrite Nat2Z.id in *. split; [|reflexivity]. destruct (nth_error l n); congruence.
Qed.

(* ... and changes no other cell (whatever the path: if the navigation fails, nothing changes at all) *)
Theorem unset_tf_frame : forall q s h v, forallb ok_seg (q ++ [s]) = true ->
  forall j, (forall c, nav h v q = Ok c -> j <> cid c) ->
  nth_error (fst (unset_tf (S (length (render_path (q ++ [s])))) h v (render_path (q ++ [s])))) j = nth_error h j.
Proof.
  intros q s h v Hok j Hj. rewrite (unset_tf_nav q s h v Hok).
  destruct (nav h v q) as [c|]; [|reflexivity]. specialize (Hj c eq_refl).
  destruct s as [k|n]; destruct c as [| b | z | bits | str | id | id]; cbn [unset_leaf cid] in *; try reflexivity.
  - destruct (get_obj h id); [|reflexivity]. cbn [fst]. apply nth_error_upd_neq. congruence.
  - destruct (get_list h id); [|reflexivity]. destruct (l_delete l [Z.of_nat n]) as [l' pn]. cbn [fst].
    apply nth_error_upd_neq. congruence.
Qed.

(* UnsetTF of an absent key of an existing object changes nothing and does not panic *)
Theorem unset_tf_absent : forall q k h v id kvs, forallb ok_seg (q ++ [Key k]) = true ->
  nav h v q = Ok (HO id) -> get_obj h id = Some kvs -> alookup k kvs = None ->
  unset_tf (S (length (render_path (q ++ [Key k])))) h v (render_path (q ++ [Key k])) = (h, false).
Proof.
  intros q k h v id kvs Hok Hnav Hgo Hab. rewrite (unset_tf_nav q (Key k) h v Hok), Hnav. cbn [unset_leaf].
  rewrite Hgo, (aremove_absent k kvs Hab). unfold set_obj. f_equal. apply upd_same.
  unfold get_obj in Hgo. destruct (nth_error h id) as [[l0|kvs0]|]; congruence.
Qed.

(* UnsetTF of an index out of range panics and changes nothing *)
Theorem unset_tf_oob : forall q n h v id l, forallb ok_seg (q ++ [Idx n]) = true ->
  nav h v q = Ok (HL id) -> get_list h id = Some l -> (length l <= n)%nat ->
  unset_tf (S (length (render_path (q ++ [Idx n])))) h v (render_path (q ++ [Idx n])) = (h, true).
Proof.
  intros q n h v id l Hok Hnav Hgl Hn. rewrite (unset_tf_nav q (Idx n) h v Hok), Hnav. cbn [unset_leaf].
  rewrite Hgl, l_delete1. assert (C : in_range (Z.of_nat n) (length l) = false) by (unfold in_range; lia).
  rewrite C. unfold set_list. f_equal. apply upd_same.
  unfold get_list in Hgl. destruct (nth_error h id) as [[l0|kvs0]|]; congruence.
Qed.


(* ================= complements ================= *)
(* without the no-revisit hypothesis SetTF still never panics and keeps the heap well-formed ... *)
Lemma set_tf_safe_gen : forall p, p <> [] -> forallb ok_seg p = true ->
  forall fuel h v x, (length (render_path p) < fuel)%nat ->
  heap_wf h -> ref_ok h v -> ref_ok h x -> starts_ok v p ->
  exists h', set_tf fuel h v (render_path p) x = (h', false)
             /\ heap_wf h' /\ same_kinds h h' /\ (length h <= length h')%nat
             /\ (forall j, (j < length h)%nat -> ~ In j (visited h v p) -> nth_error h' j = nth_error h j).
Proof.
  induction p as [|s t IH]; intros Hne Hok fuel h v x Hfu W Hv Hx Hst; [congruence|].
  cbn [forallb] in Hok. apply andb_true_iff in Hok as [Hs Ht].
  apply starts_ok_fits in Hst. rename Hst into Hfit.
  destruct fuel as [|f]; [lia|].
  pose proof (visited_cons h v s t Hfit) as Hvis.
  destruct t as [|s' t'].
  - destruct (set_tf_leaf s f h v x Hs W Hv Hx Hfit) as (h' & E & W' & SK & L & S1 & Fr & Sl).
    exists h'. split; [exact E|]. split; [exact W'|]. split; [exact SK|]. split; [exact L|].
    intros j Hj Hn. apply Fr; [exact Hj|]. intros ->. apply Hn. rewrite Hvis. left. reflexivity.
  - destruct (set_tf_step s s' t' f h v x Hs W Hv Hfit) as (h1 & v1 & E & P).
    destruct P as (W1 & SK1 & L1 & R1 & F1 & S1 & Fr1 & D & Sl).
    destruct (IH ltac:(discriminate) Ht f h1 v1 x (render_tail_fuel _ _ _ Hfu) W1 R1 (ref_ok_mono _ _ _ SK1 Hx)
                 (proj2 (starts_ok_fits v1 s' t') F1)) as (h' & E' & W' & SK' & L' & Fr').
    exists h'. rewrite E. split; [exact E'|]. split; [exact W'|].
    split; [exact (same_kinds_trans _ _ _ SK1 SK')|]. split; [lia|].
    intros j Hj Hn.
    assert (Hjc : j <> cid v) by (intros ->; apply Hn; rewrite Hvis; left; reflexivity).
    rewrite <- (Fr1 j Hj Hjc). apply Fr'; [lia|].
    destruct D as [[-> S0]|[D _]].
    + intros Hin. apply Hn. rewrite Hvis, S0. right. exact Hin.
    + rewrite D. intros [Hc|[]]. lia.
Qed.

Theorem set_tf_safe : forall p h v x, heap_wf h -> ref_ok h v -> ref_ok h x -> p <> [] -> forallb ok_seg p = true -> starts_ok v p ->
  let '(h', panicked) := set_tf (S (length (render_path p))) h v (render_path p) x in
  panicked = false /\ heap_wf h' /\ (length h <= length h')%nat /\ forall y, ref_ok h y -> ref_ok h' y.
Proof.
  intros p h v x W Hv Hx Hne Hok Hst.
  destruct (set_tf_safe_gen p Hne Hok (S (length (render_path p))) h v x ltac:(lia) W Hv Hx Hst) as (h' & E & W' & SK & L & _).
  rewrite E. split; [reflexivity|]. split; [exact W'|]. split; [exact L|]. intros y. apply ref_ok_mono. exact SK.
Qed.


(* T8, first part: SetTF only appends cells and rewrites cells the navigation visits (no hypothesis on revisits needed) *)
Theorem set_tf_frame : forall p h v x, heap_wf h -> ref_ok h v -> ref_ok h x -> p <> [] -> forallb ok_seg p = true -> starts_ok v p ->
  let h' := fst (set_tf (S (length (render_path p))) h v (render_path p) x) in
  (length h <= length h')%nat /\ same_kinds h h' /\
  forall id, (id < length h)%nat -> ~ In id (visited h v p) -> nth_error h' id = nth_error h id.
Proof.
  intros p h v x W Hv Hx Hne Hok Hst.
  destruct (set_tf_safe_gen p Hne Hok (S (length (render_path p))) h v x ltac:(lia) W Hv Hx Hst)
    as (h' & E & W' & SK & L & Fr).
  rewrite E. cbn [fst]. split; [exact L|]. split; [exact SK | exact Fr].
Qed.

(* ... but the read-back can fail when the navigation passes twice through the same container:
   root = {a: root};  SetTF(".a.a", 1) makes root = {a: 1};  GetTF(".a.a") then panics *)
Example set_tf_ok_needs_no_revisit :
  let h := [CObj [(B"a", HO O)]] in
  let p := [Key (B"a"); Key (B"a")] in
  let tf := render_path p in
  heap_wf h /\ ref_ok h (HO O) /\ forallb ok_seg p = true /\ starts_ok (HO O) p /\
  visited h (HO O) p = [O; O] /\
  set_tf (S (length tf)) h (HO O) tf (HInt 1) = ([CObj [(B"a", HInt 1)]], false) /\
  get_tf (S (length tf)) [CObj [(B"a", HInt 1)]] (HO O) tf = Panic.
Proof.
  cbv zeta. split.
  { intros [|id]; cbn [nth_error].
    - intros k x [E|[]]. injection E as _ <-. exists [(B"a", HO O)]. reflexivity.
    - destruct id; exact I. }
  split; [eexists; reflexivity|]. split; [reflexivity|]. split; [exact I|].
  split; [vm_compute; reflexivity|]. split; vm_compute; reflexivity.
Qed.

(* a sufficient condition on the heap alone: no cycles (sharing is fine).  A rank on cells that decreases along
   every reference; every tree-shaped or DAG-shaped heap has one. *)
Definition is_ref (v : hval) : bool := match v with HL _ | HO _ => true | _ => false end.
Definition acyclic (h : heap) : Prop :=
  exists rank : nat -> nat, forall id c x, nth_error h id = Some c -> In x (members c) -> is_ref x = true ->
                                           (rank (cid x) < rank id)%nat.

Lemma step1_Ok_cell h v s x : step1 h v s = Ok x -> exists c, nth_error h (cid v) = Some c /\ In x (members c).
Proof. intros S1. destruct s as [k|n]; destruct v as [| b | z | bits | str | id | id]; cbn [step1 cid] in *; try discriminate.
  - unfold get_obj in S1. destruct (nth_error h id) as [[l|kvs]|] eqn:E; try discriminate.
    eexists. split; [reflexivity|]. cbn [members]. apply (o_get_In _ _ _ S1).
  - unfold get_list in S1. destruct (nth_error h id) as [[l|kvs]|] eqn:E; try discriminate.
    eexists. split; [reflexivity|]. cbn [members]. apply (l_get_In _ _ _ S1). Qed.

Lemma visited_nonref h x t : is_ref x = false -> visited h x t = [].
Proof. intros H. destruct t as [|s' t']; [reflexivity|]. destruct x; try discriminate H; reflexivity. Qed.

Lemma visited_acyclic h (rank : nat -> nat) :
  (forall id c x, nth_error h id = Some c -> In x (members c) -> is_ref x = true -> (rank (cid x) < rank id)%nat) ->
  forall p v, (forall j, In j (visited h v p) -> (rank j <= rank (cid v))%nat) /\ NoDup (visited h v p).
Proof.
  intros Hr. induction p as [|s t IH]; intros v; cbn [visited].
  - split; [intros j [] | constructor].
  - destruct (fits v s) eqn:F; [|split; [intros j [] | constructor]].
    destruct (step1 h v s) as [x|] eqn:S1.
    2:{ split; [intros j [<-|[]]; lia | constructor; [intros [] | constructor]]. }
    destruct (is_ref x) eqn:Rx.
    + destruct (step1_Ok_cell h v s x S1) as (c & Ec & Hin). pose proof (Hr _ _ _ Ec Hin Rx) as Hlt.
      destruct (IH x) as [B ND]. split.
      * intros j [<-|Hj]; [lia|]. specialize (B j Hj). lia.
      * constructor; [|exact ND]. intros Hj. specialize (B _ Hj). lia.
    + rewrite (visited_nonref h x t Rx). split; [intros j [<-|[]]; lia | constructor; [intros [] | constructor]].
Qed.

Corollary set_tf_ok_acyclic : forall p h v x, acyclic h -> heap_wf h -> ref_ok h v -> ref_ok h x -> p <> [] ->
  forallb ok_seg p = true -> starts_ok v p ->
  let '(h', panicked) := set_tf (S (length (render_path p))) h v (render_path p) x in
  panicked = false /\ heap_wf h' /\ get_tf (S (length (render_path p))) h' v (render_path p) = Ok x.
Proof.
  intros p h v x [rank Hr] W Hv Hx Hne Hok Hst.
  apply set_tf_ok; try assumption. exact (proj2 (visited_acyclic h rank Hr p v)).
Qed.


(* ================= slot frame: in the cells it visits, SetTF changes only the addressed slot ================= *)
Lemma step1_Ok_fits h v s x : step1 h v s = Ok x -> fits v s = true.
Proof. destruct s; destruct v; cbn [step1 fits]; intros H; try discriminate; reflexivity. Qed.

Lemma slots_prefix : forall q h v s t c, nav h v q = Ok c -> fits c s = true -> In (cid c, s) (slots h v (q ++ s :: t)).
Proof. induction q as [|s0 q IH]; intros h v s t c Hn Hf.
  - cbn [nav] in Hn. injection Hn as ->. cbn [app]. rewrite slots_cons by exact Hf. left. reflexivity.
  - rewrite nav_cons in Hn. destruct (step1 h v s0) as [x0|] eqn:S0; [|discriminate].
    cbn [app]. rewrite slots_cons by exact (step1_Ok_fits _ _ _ _ S0). rewrite S0. right. apply IH; assumption. Qed.

Theorem set_tf_slot_frame : forall p h v x, heap_wf h -> ref_ok h v -> ref_ok h x -> p <> [] -> forallb ok_seg p = true -> starts_ok v p ->
  NoDup (visited h v p) ->
  let h' := fst (set_tf (S (length (render_path p))) h v (render_path p) x) in
  forall q s t c, p = q ++ s :: t -> nav h v q = Ok c ->
    match c, s with
    | HO id, Key k => forall kvs, get_obj h id = Some kvs ->
        exists kvs', get_obj h' id = Some kvs' /\ forall k', k' <> k -> alookup k' kvs' = alookup k' kvs
    | HL id, Idx n => forall l, get_list h id = Some l ->
        exists l', get_list h' id = Some l' /\
          (forall j, j <> n -> (j < length l)%nat -> nth_error l' j = nth_error l j) /\
          (forall j, (length l <= j)%nat -> j <> n -> (j < length l')%nat -> nth_error l' j = Some HNil)
    | _, _ => True
    end.
Proof.
  intros p h v x W Hv Hx Hne Hok Hst Hnd.
  destruct (set_tf_gen p Hne Hok (S (length (render_path p))) h v x ltac:(lia) W Hv Hx Hst Hnd)
    as (h' & E & W' & SK & L & Fr & N & SF).
  rewrite E. cbn [fst]. intros q s t c Hp Hnav. rewrite Hp in SF.
  destruct c as [| b | z | bits | str | id | id]; destruct s as [k|n]; try exact I.
  - intros l Hgl.
    destruct (SF id (Idx n) (slots_prefix q h v (Idx n) t (HL id) Hnav eq_refl)) as (c0 & c1 & A & B & C).
    unfold get_list in Hgl. rewrite A in Hgl. destruct c0 as [l0|kvs0]; [|discriminate]. injection Hgl as ->.
    destruct c1 as [l1|kvs1]; [|cbn [slot_same] in C; contradiction].
    exists l1. split; [unfold get_list; rewrite B; reflexivity | exact C].
  - intros kvs Hgo.
    destruct (SF id (Key k) (slots_prefix q h v (Key k) t (HO id) Hnav eq_refl)) as (c0 & c1 & A & B & C).
    unfold get_obj in Hgo. rewrite A in Hgo. destruct c0 as [l0|kvs0]; [discriminate|]. injection Hgo as ->.
    destruct c1 as [l1|kvs1]; [cbn [slot_same] in C; contradiction|].
    exists kvs1. split; [unfold get_obj; rewrite B; reflexivity | exact C].
Qed.

(* consequence: a navigation that reads none of the slots SetTF addresses still gives the same result *)
Lemma visited_slots h v p id : In id (visited h v p) -> exists s, In (id, s) (slots h v p).
Proof. revert v. induction p as [|s t IH]; intros v; cbn [visited slots]; [contradiction|].
  destruct (fits v s); [|contradiction]. intros [<-|Hin]; [exists s; left; reflexivity|].
  destruct (step1 h v s) as [x|]; [|contradiction]. destruct (IH x Hin) as [s1 H1]. exists s1. right. exact H1. Qed.

Lemma slot_same_step1 h h' v s s2 c c' x :
  nth_error h (cid v) = Some c -> nth_error h' (cid v) = Some c' -> slot_same s c c' -> s2 <> s ->
  step1 h v s2 = Ok x -> step1 h' v s2 = Ok x.
Proof. intros E E' Sl Ns S1.
  destruct s2 as [k2|n2]; destruct v as [| b | z | bits | str | id | id]; cbn [step1 cid] in *; try discriminate.
  - unfold get_obj in *. rewrite E in S1. rewrite E'. destruct c as [l|kvs]; [discriminate|].
    destruct s as [k|n]; [|cbn [slot_same] in Sl; contradiction].
    destruct c' as [l'|kvs']; [cbn [slot_same] in Sl; contradiction|]. cbn [slot_same] in Sl.
    unfold o_get in *. rewrite Sl by congruence. exact S1.
  - unfold get_list in *. rewrite E in S1. rewrite E'. destruct c as [l|kvs]; [|discriminate].
    destruct s as [k|n]; [cbn [slot_same] in Sl; contradiction|].
    destruct c' as [l'|kvs']; [|cbn [slot_same] in Sl; contradiction]. destruct Sl as [Sl1 _].
    unfold l_get in *. destruct (in_range (Z.of_nat n2) (length l)) eqn:R; [|discriminate].
    rewrite Nat2Z.id in *. destruct (nth_error l n2) as [y|] eqn:N; [|discriminate].
    assert (Hlt : (n2 < length l)%nat) by (apply nth_error_Some; congruence).
    assert (N' : nth_error l' n2 = Some y) by (rewrite Sl1; [exact N | congruence | exact Hlt]).
    assert (Hlt' : (n2 < length l')%nat) by (apply nth_error_Some; congruence).
    assert (R' : in_range (Z.of_nat n2) (length l') = true) by (unfold in_range; lia).
    rewrite R', N'. exact S1. Qed.

Theorem set_tf_other_paths : forall p h v x, heap_wf h -> ref_ok h v -> ref_ok h x -> p <> [] -> forallb ok_seg p = true -> starts_ok v p ->
  NoDup (visited h v p) ->
  let h' := fst (set_tf (S (length (render_path p))) h v (render_path p) x) in
  forall p2 v2 y, nav h v2 p2 = Ok y ->
    (forall id s s2, In (id, s) (slots h v p) -> In (id, s2) (slots h v2 p2) -> s2 <> s) ->
    nav h' v2 p2 = Ok y.
Proof.
  intros p h v x W Hv Hx Hne Hok Hst Hnd.
  destruct (set_tf_gen p Hne Hok (S (length (render_path p))) h v x ltac:(lia) W Hv Hx Hst Hnd)
    as (h' & E & W' & SK & L & Fr & N & SF).
  rewrite E. cbn [fst]. clear E N.
  induction p2 as [|s2 t2 IH2]; intros v2 y Hn Hdis; [exact Hn|].
  rewrite nav_cons in Hn. rewrite nav_cons. destruct (step1 h v2 s2) as [x2|] eqn:S2; [|discriminate].
  pose proof (step1_Ok_fits _ _ _ _ S2) as F2. rewrite (slots_cons h v2 s2 t2 F2), S2 in Hdis.
  assert (S2' : step1 h' v2 s2 = Ok x2).
  { destruct (in_dec Nat.eq_dec (cid v2) (visited h v p)) as [Hin|Hni].
    - destruct (visited_slots _ _ _ _ Hin) as [s Hs]. destruct (SF _ _ Hs) as (c0 & c1 & A & B & C).
      apply (slot_same_step1 h h' v2 s s2 c0 c1 x2 A B C); [|exact S2].
      apply (Hdis (cid v2) s s2 Hs). left. reflexivity.
    - destruct (step1_Ok_cell h v2 s2 x2 S2) as (c & Ec & _).
      rewrite (step1_ext h h' v2 s2); [exact S2|]. apply Fr; [|exact Hni]. apply nth_error_Some. congruence. }
  rewrite S2'. apply IH2; [exact Hn|]. intros id s s0 H1 H2. apply (Hdis id s s0 H1). right. exact H2.
Qed.

End TF.
