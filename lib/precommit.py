#!/usr/bin/env python3
"""Run before committing: MANIFEST.json and every evidence file validate against the schemas, and every evidence file comes
from a quiet run on the unchanged tree (no violations, every obligation discharged)."""
import json, sys, os, subprocess
V = os.path.dirname(os.path.dirname(os.path.abspath(__file__)))
code = r'''
import json, jsonschema, sys, os
V = sys.argv[1]
m = json.load(open(os.path.join(V, "MANIFEST.json")))
jsonschema.validate(m, json.load(open("/root/.vp/MANIFEST.schema.json")))
es = json.load(open("/root/.vp/EVIDENCE.schema.json"))
bad = 0
for c in m["checks"]:
    p = os.path.join(V, c["evidence_file"])
    try:
        e = json.load(open(p)); jsonschema.validate(e, es)
        cov = e["coverage"]
        if e.get("violations", 0) != 0 or cov["discharged"] != cov["obligations"] or cov["obligations"] < 1:
            print("NOT FROM A QUIET CLEAN RUN:", p, e.get("violations"), cov["discharged"], cov["obligations"]); bad += 1
    except Exception as ex:
        print("INVALID:", p, str(ex)[:200]); bad += 1
print("precommit:", "ok" if not bad else "%d problem(s)" % bad)
sys.exit(1 if bad else 0)
'''
sys.exit(subprocess.run(["python3-vt", "-c", code, V]).returncode)
