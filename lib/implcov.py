#!/usr/bin/env python3
"""Which statements of /repo do the correspondence runs execute?

The correspondence half of the tie only says something about code the generated cases actually run.  This module measures it
instead of asserting it: the harness is built with Go's coverage instrumentation for the anytype package
(`go build -cover -coverpkg=...`), a property's generator is run with GOCOVERDIR set, and `go tool covdata` reports statement
coverage per function of /repo.  Used by `./check Cxx --tier thorough` (per property, into the evidence file) and by
`./check coverage` (all properties, merged, written to coverage/impl_coverage.json).

Nothing here decides a property; it documents the reach of the tie.
"""
import os, re, subprocess, json, shutil, sys

VERIF = os.path.dirname(os.path.dirname(os.path.abspath(__file__)))
HARNESS = os.path.join(VERIF, "harness")
PKG = "github.com/DanielSvub/anytype"
GOENV = dict(os.environ, GOFLAGS="-mod=mod", GOPROXY="off", GOSUMDB="off", GOTOOLCHAIN="local")


def sh(cmd, cwd=None, env=None, timeout=1800):
    p = subprocess.run(cmd, cwd=cwd, env=env or GOENV, stdout=subprocess.PIPE, stderr=subprocess.STDOUT, text=True, timeout=timeout)
    return p.returncode, p.stdout


def build_cover():
    if os.path.exists("/repo/go.sum"):
        shutil.copy("/repo/go.sum", os.path.join(HARNESS, "go.sum"))
    return sh(["go", "build", "-tags", "verif", "-cover", "-coverpkg=%s,verifharness" % PKG, "-o", "harness-cover", "."], cwd=HARNESS)


def parse_func(out):
    """lines: <pkg>/<file>:<line>:\t<func>\t<pct>%"""
    funcs = {}
    for line in out.splitlines():
        m = re.match(r"^%s/([^:]+):(\d+):\s+(\S+)\s+([0-9.]+)%%$" % re.escape(PKG), line.strip())
        if m:
            funcs["%s:%s" % (m.group(1), m.group(3))] = float(m.group(4))
    return funcs


def measure(prop, n, seed, work, covdir=None):
    """run the generator of `prop` under coverage; returns a summary dict (or {'error': ...})"""
    covdir = covdir or os.path.join(work, "cov-" + prop)
    shutil.rmtree(covdir, ignore_errors=True)
    os.makedirs(covdir)
    env = dict(GOENV, GOCOVERDIR=covdir)
    rc, out = sh([os.path.join(HARNESS, "harness-cover"), prop, "--seed", str(seed), "--n", str(n), "--tier", "quick",
                  "--out", os.path.join(work, "cases-cover-%s.jsonl" % prop)], cwd=HARNESS, env=env)
    if rc != 0:
        return {"error": out[-500:]}
    return summarise([covdir])


def summarise(covdirs):
    inp = ",".join(covdirs)
    rc, pct = sh(["go", "tool", "covdata", "percent", "-i=" + inp, "-pkg=" + PKG])
    rc2, fn = sh(["go", "tool", "covdata", "func", "-i=" + inp, "-pkg=" + PKG])
    m = re.search(r"coverage:\s*([0-9.]+)% of statements", pct)
    funcs = parse_func(fn)
    return {
        "package": PKG,
        "statements_pct": float(m.group(1)) if m else None,
        "functions_total": len(funcs),
        "functions_executed": sum(1 for v in funcs.values() if v > 0),
        "functions_fully_covered": sum(1 for v in funcs.values() if v >= 100.0),
        "functions_not_executed": sorted(k for k, v in funcs.items() if v == 0),
        "functions_partly_covered": {k: v for k, v in sorted(funcs.items()) if 0 < v < 100.0},
    }


def all_props(props, ns, seed=1):
    work = os.path.join(VERIF, ".work", "implcov")
    os.makedirs(work, exist_ok=True)
    rc, out = build_cover()
    if rc != 0:
        print("coverage build failed:\n" + out)
        return 1
    per, dirs = {}, []
    for p in props:
        d = os.path.join(work, "cov-" + p)
        s = measure(p, ns[p], seed, work, d)
        per[p] = {k: s.get(k) for k in ("statements_pct", "functions_executed", "functions_total", "error") if k in s}
        dirs.append(d)
        print("%s: %s%% of the package's statements, %s/%s functions" % (p, s.get("statements_pct"), s.get("functions_executed"), s.get("functions_total")))
    union = summarise(dirs)
    os.makedirs(os.path.join(VERIF, "coverage"), exist_ok=True)
    json.dump({"what": "statement coverage of /repo (package anytype, non-test files) by the correspondence runs' generators at quick volume, seed %d" % seed,
               "per_property": per, "union": union},
              open(os.path.join(VERIF, "coverage", "impl_coverage.json"), "w"), indent=1)
    print("union: %s%% of statements; %d of %d functions executed; not executed: %s" % (
        union["statements_pct"], union["functions_executed"], union["functions_total"], ", ".join(union["functions_not_executed"]) or "none"))
    for d in dirs:
        shutil.rmtree(d, ignore_errors=True)
    return 0


if __name__ == "__main__":
    sys.path.insert(0, os.path.join(VERIF, "lib"))
    import propconf
    props = sorted(propconf.PROPS)
    sys.exit(all_props(props, {p: propconf.PROPS[p]["n"]["quick"] for p in props}))
