#!/usr/bin/env python3
"""Confirm a seeded change and run the checks against it.
   usage: seedtest.py confirm <src_dir> <seed_id>      (src_dir holds patch.diff demo_test.go meta.json; copies into /verif/seeded/<seed_id>)
          seedtest.py detect <seed_id> [prop ...]       (applies the patch to /repo, runs ./check for the props, undoes it; records results in meta.json)
"""
import sys, os, json, subprocess, shutil, tempfile, time
VERIF = os.path.dirname(os.path.dirname(os.path.abspath(__file__)))
ENV = dict(os.environ, GOFLAGS="-mod=mod", GOPROXY="off", GOSUMDB="off", GOTOOLCHAIN="local")

def sh(cmd, cwd=None, timeout=1800):
    p = subprocess.run(cmd, cwd=cwd, env=ENV, stdout=subprocess.PIPE, stderr=subprocess.STDOUT, text=True, shell=isinstance(cmd, str), timeout=timeout)
    return p.returncode, p.stdout

def confirm(src, sid):
    wt = tempfile.mkdtemp(prefix="seedcheck-", dir="/tmp")
    os.rmdir(wt)
    rc, out = sh(["git", "-C", "/repo", "worktree", "add", "-q", "--detach", wt, "HEAD"])
    assert rc == 0, out
    res = {}
    try:
        patch = os.path.join(src, "patch.diff")
        rc, out = sh(["git", "-C", wt, "apply", patch]); res["applies"] = rc == 0
        if rc != 0:
            print("patch does not apply:", out); return None
        rc, out = sh("go build ./... && go test -vet=off -count=1 ./...", cwd=wt); res["suite_passes_with_change"] = rc == 0
        shutil.copy(os.path.join(src, "demo_test.go"), os.path.join(wt, "zz_seed_demo_test.go"))
        rc, out = sh("go test -vet=off -count=1 -run TestSeedDemo .", cwd=wt); res["demo_fails_with_change"] = rc != 0
        res["demo_output_with_change"] = out[-1500:]
        sh(["git", "-C", wt, "checkout", "--", "."])
        rc, out = sh("go test -vet=off -count=1 -run TestSeedDemo .", cwd=wt); res["demo_passes_without_change"] = rc == 0
    finally:
        sh(["git", "-C", "/repo", "worktree", "remove", "--force", wt])
    ok = res.get("suite_passes_with_change") and res.get("demo_fails_with_change") and res.get("demo_passes_without_change")
    print(sid, "confirmed" if ok else "NOT CONFIRMED", {k: v for k, v in res.items() if k != "demo_output_with_change"})
    if not ok:
        return None
    dst = os.path.join(VERIF, "seeded", sid)
    os.makedirs(dst, exist_ok=True)
    shutil.copy(os.path.join(src, "patch.diff"), dst)
    shutil.copy(os.path.join(src, "demo_test.go"), dst)
    meta = {}
    try:
        meta = json.load(open(os.path.join(src, "meta.json")))
    except Exception as e:
        meta = {"summary": "(meta.json unreadable: %s)" % e}
    meta["confirmed"] = res
    meta["confirmed_how"] = "scratch worktree of /repo HEAD: git apply; go build ./... && go test -vet=off -count=1 ./... (pass); demo copied to the root, go test -run TestSeedDemo . (fail); git checkout; demo again (pass)"
    json.dump(meta, open(os.path.join(dst, "meta.json"), "w"), indent=1)
    return res

def detect(sid, props):
    dst = os.path.join(VERIF, "seeded", sid)
    meta = json.load(open(os.path.join(dst, "meta.json")))
    if not props:
        props = [meta.get("property", sid.split("-")[0])]
    rc, out = sh(["git", "-C", "/repo", "status", "--porcelain"])
    assert out.strip() == "", "/repo not clean: " + out
    rc, out = sh(["git", "-C", "/repo", "apply", os.path.join(dst, "patch.diff")])
    assert rc == 0, out
    results = meta.get("detection", {})
    try:
        for p in props:
            t0 = time.time()
            rc, out = sh([os.path.join(VERIF, "check"), p, "--tier", "quick"], cwd=VERIF)
            viol = [l for l in out.split("\n") if l.startswith("VIOLATION") or l.startswith("KNOWN-FINDING")]
            results[p] = {"exit": rc, "lines": viol[:4], "wall_s": round(time.time() - t0, 1)}
            print(sid, p, "exit", rc, viol[:2])
    finally:
        sh(["git", "-C", "/repo", "checkout", "--", "."])
    meta["detection"] = results
    json.dump(meta, open(os.path.join(dst, "meta.json"), "w"), indent=1)

if __name__ == "__main__":
    if sys.argv[1] == "confirm":
        confirm(sys.argv[2], sys.argv[3])
    elif sys.argv[1] == "detect":
        detect(sys.argv[2], sys.argv[3:])


# ---------------------------------------------------------------- sandboxed sweep (does not touch /repo or /verif's working tree)
def sweep(ids, jobs=3):
    """Run the quick check of each seed's property against a scratch worktree of /repo carrying the seed, from a snapshot of the
    COMMITTED /verif (git archive HEAD), several at a time.  Results go to seeded/<id>/meta.json ("detection") and to stdout."""
    import concurrent.futures, glob
    base = tempfile.mkdtemp(prefix="sv-base-", dir="/tmp")
    rc, out = sh("git -C %s archive HEAD | tar -x -C %s" % (VERIF, base))
    assert rc == 0, out
    shutil.rmtree(os.path.join(base, "seeded"), ignore_errors=True)
    rc, out = sh(["./check", "setup"], cwd=base, timeout=3000)
    assert rc == 0, out
    if not ids:
        ids = sorted(os.path.basename(os.path.dirname(p)) for p in glob.glob(os.path.join(VERIF, "seeded", "C*", "meta.json")))

    def one(sid):
        dst = os.path.join(VERIF, "seeded", sid)
        meta = json.load(open(os.path.join(dst, "meta.json")))
        prop = meta.get("property", sid.split("-")[0])
        sv = tempfile.mkdtemp(prefix="sv-%s-" % sid, dir="/tmp")
        sw = sv + "-repo"
        try:
            sh(["rsync", "-a", base + "/", sv + "/"])
            rc, out = sh(["git", "-C", "/repo", "worktree", "add", "-q", "--detach", sw, "HEAD"])
            assert rc == 0, out
            rc, out = sh(["git", "-C", sw, "apply", os.path.join(dst, "patch.diff")])
            assert rc == 0, out
            gm = os.path.join(sv, "harness", "go.mod")
            txt = open(gm).read().replace("=> /repo", "=> " + sw)
            open(gm, "w").write(txt)
            t0 = time.time()
            p = subprocess.run([os.path.join(sv, "check"), prop, "--tier", "quick"], cwd=sv, env=dict(ENV, VERIF_REPO=sw),
                               stdout=subprocess.PIPE, stderr=subprocess.STDOUT, text=True, timeout=3000)
            viol = [l for l in p.stdout.split("\n") if l.startswith("VIOLATION")]
            if any("harness-build" in l for l in viol):
                try:
                    viol.append(json.load(open(os.path.join(sv, "replays", "%s-harness-build.json" % prop)))["output"][-600:])
                except Exception as e:  # noqa
                    viol.append(str(e))
            res = {"exit": p.returncode, "lines": viol[:4], "wall_s": round(time.time() - t0, 1),
                   "with_input": any("no-failing-input-found" not in l for l in viol)}
        except Exception as e:  # noqa
            res = {"exit": -1, "lines": ["sweep error: %s" % e], "wall_s": 0, "with_input": False}
        finally:
            sh(["git", "-C", "/repo", "worktree", "remove", "--force", sw])
            shutil.rmtree(sv, ignore_errors=True)
        meta.setdefault("detection", {})[prop] = res
        json.dump(meta, open(os.path.join(dst, "meta.json"), "w"), indent=1)
        print(sid, prop, "exit", res["exit"], "input" if res["with_input"] else "NO-INPUT", res["lines"][:1], flush=True)
        return sid, res

    results = {}
    with concurrent.futures.ThreadPoolExecutor(max_workers=jobs) as ex:
        for sid, res in ex.map(one, ids):
            results[sid] = res
    shutil.rmtree(base, ignore_errors=True)
    sh(["git", "-C", "/repo", "worktree", "prune"])
    missed = [s for s, r in results.items() if r["exit"] != 1]
    weak = [s for s, r in results.items() if r["exit"] == 1 and not r["with_input"]]
    print("SWEEP: %d seeds, %d detected with a failing input, %d only without input %s, %d missed %s" %
          (len(results), len(results) - len(missed) - len(weak), len(weak), weak, len(missed), missed))


if __name__ == "__main__" and sys.argv[1] == "sweep":
    jobs = 3
    args = sys.argv[2:]
    if args and args[0].startswith("--jobs="):
        jobs = int(args[0].split("=")[1]); args = args[1:]
    sweep(args, jobs)


def sweep_harmless(jobs=3, only=None):
    """The behaviour-preserving rewrites (seeded/harmless/H*-*), each against the quick checks of the properties whose code it touches
    (the list recorded in seeded/harmless_results.txt), in sandboxes.  Every run must exit 0."""
    import concurrent.futures, glob, re
    base = tempfile.mkdtemp(prefix="sv-base-", dir="/tmp")
    rc, out = sh("git -C %s archive HEAD | tar -x -C %s" % (VERIF, base))
    assert rc == 0, out
    shutil.rmtree(os.path.join(base, "seeded"), ignore_errors=True)
    rc, out = sh(["./check", "setup"], cwd=base, timeout=3000)
    assert rc == 0, out
    props_of = {}
    for l in open(os.path.join(VERIF, "seeded", "harmless_results.txt")):
        m = re.match(r"stage-(H\d-\d) (C\d\d) ", l)
        if m and m.group(2) not in props_of.setdefault(m.group(1), []):
            props_of[m.group(1)].append(m.group(2))
    import glob as _g
    allp = ["C%02d" % i for i in range(1, 21)]
    for d in sorted(_g.glob(os.path.join(VERIF, "seeded", "harmless", "H*-*"))):
        h = os.path.basename(d)
        if h not in props_of:
            # rewrites of the second batch: the checks of every property whose code the rewrite touches (by theme)
            props_of[h] = {"H5": ["C02", "C05", "C06", "C08", "C09", "C10", "C13", "C14", "C16", "C18"],
                           "H6": ["C09", "C14", "C15", "C19"],
                           "H7": ["C01", "C02", "C03", "C04", "C16", "C20"],
                           "H8": ["C05", "C06", "C08", "C10", "C11", "C12", "C13", "C19"],
                           # third batch: the optimisations of round 8 done right (H9 is matched by h[:2] == "H9")
                           "H9": ["C01", "C02", "C05", "C10", "C16", "C17", "C18"],
                           "H10": ["C05", "C06", "C08", "C09", "C11", "C12", "C19"],
                           "H11": ["C01", "C03", "C04", "C20"],
                           "H12": ["C07", "C13", "C14", "C15", "C18"]}.get(h.split("-")[0], allp)
    if only:
        props_of = {h: ps for h, ps in props_of.items() if h in only}
    jobsl = [(h, p) for h in sorted(props_of) for p in props_of[h]]

    def one(hp):
        h, prop = hp
        sv = tempfile.mkdtemp(prefix="sv-%s-%s-" % (h, prop), dir="/tmp")
        sw = sv + "-repo"
        try:
            sh(["rsync", "-a", base + "/", sv + "/"])
            rc, out = sh(["git", "-C", "/repo", "worktree", "add", "-q", "--detach", sw, "HEAD"])
            assert rc == 0, out
            rc, out = sh(["git", "-C", sw, "apply", os.path.join(VERIF, "seeded", "harmless", h, "patch.diff")])
            assert rc == 0, out
            gm = os.path.join(sv, "harness", "go.mod")
            txt = open(gm).read().replace("=> /repo", "=> " + sw)
            open(gm, "w").write(txt)
            p = subprocess.run([os.path.join(sv, "check"), prop, "--tier", "quick"], cwd=sv, env=dict(ENV, VERIF_REPO=sw),
                               stdout=subprocess.PIPE, stderr=subprocess.STDOUT, text=True, timeout=3000)
            viol = [l for l in p.stdout.split("\n") if l.startswith("VIOLATION")]
            detail = ""
            if viol:
                try:
                    rp = viol[0].split("replay=")[1].split()[0]
                    detail = open(os.path.join(sv, rp)).read()[:1500]
                except Exception as e:  # noqa
                    detail = str(e)
            res = (h, prop, p.returncode, viol[:2], detail)
        except Exception as e:  # noqa
            res = (h, prop, -1, ["sweep error: %s" % e], "")
        finally:
            sh(["git", "-C", "/repo", "worktree", "remove", "--force", sw])
            shutil.rmtree(sv, ignore_errors=True)
        print("harmless", res[0], res[1], "exit", res[2], res[3], flush=True)
        if res[4]:
            print(res[4], flush=True)
        return res

    with concurrent.futures.ThreadPoolExecutor(max_workers=jobs) as ex:
        results = list(ex.map(one, jobsl))
    shutil.rmtree(base, ignore_errors=True)
    sh(["git", "-C", "/repo", "worktree", "prune"])
    alarms = [(r[0], r[1]) for r in results if r[2] != 0]
    print("HARMLESS: %d runs, %d alarms %s" % (len(results), len(alarms), alarms))


if __name__ == "__main__" and sys.argv[1] == "harmless":
    sweep_harmless(int(sys.argv[2]) if len(sys.argv) > 2 else 3, sys.argv[3:] or None)
