#!/usr/bin/env python3
"""Confirm a seeded change and run the checks against it.
   usage: seedtest.py confirm <src_dir> <seed_id>      (src_dir holds patch.diff demo_test.go meta.json; copies into /verif/seeded/<seed_id>)
          seedtest.py detect <seed_id> [prop ...]       (applies the patch to /repo, runs ./check for the props, undoes it; records results in meta.json)
"""
import sys, os, json, subprocess, shutil, tempfile, time
VERIF = os.path.dirname(os.path.dirname(os.path.abspath(__file__)))
ENV = dict(os.environ, GOFLAGS="-mod=mod", GOPROXY="off", GOSUMDB="off", GOTOOLCHAIN="local")

def sh(cmd, cwd=None, timeout=1800):
    p = subprocess.run(cmd, cwd=cwd, env=ENV, stdout=subprocess.PIPE, stderr=subprocess.STDOUT, text=True, shell=isinstance(cmd, str), timeout=timeout)
    return p.returncode, p.stdout

def confirm(src, sid):
    wt = tempfile.mkdtemp(prefix="seedcheck-", dir="/tmp")
    os.rmdir(wt)
    rc, out = sh(["git", "-C", "/repo", "worktree", "add", "-q", "--detach", wt, "HEAD"])
    assert rc == 0, out
    res = {}
    try:
        patch = os.path.join(src, "patch.diff")
        rc, out = sh(["git", "-C", wt, "apply", patch]); res["applies"] = rc == 0
        if rc != 0:
            print("patch does not apply:", out); return None
        rc, out = sh("go build ./... && go test -vet=off -count=1 ./...", cwd=wt); res["suite_passes_with_change"] = rc == 0
        shutil.copy(os.path.join(src, "demo_test.go"), os.path.join(wt, "zz_seed_demo_test.go"))
        rc, out = sh("go test -vet=off -count=1 -run TestSeedDemo .", cwd=wt); res["demo_fails_with_change"] = rc != 0
        res["demo_output_with_change"] = out[-1500:]
        sh(["git", "-C", wt, "checkout", "--", "."])
        rc, out = sh("go test -vet=off -count=1 -run TestSeedDemo .", cwd=wt); res["demo_passes_without_change"] = rc == 0
    finally:
        sh(["git", "-C", "/repo", "worktree", "remove", "--force", wt])
    ok = res.get("suite_passes_with_change") and res.get("demo_fails_with_change") and res.get("demo_passes_without_change")
    print(sid, "confirmed" if ok else "NOT CONFIRMED", {k: v for k, v in res.items() if k != "demo_output_with_change"})
    if not ok:
        return None
    dst = os.path.join(VERIF, "seeded", sid)
    os.makedirs(dst, exist_ok=True)
    shutil.copy(os.path.join(src, "patch.diff"), dst)
    shutil.copy(os.path.join(src, "demo_test.go"), dst)
    meta = {}
    try:
        meta = json.load(open(os.path.join(src, "meta.json")))
    except Exception as e:
        meta = {"summary": "(meta.json unreadable: %s)" % e}
    meta["confirmed"] = res
    meta["confirmed_how"] = "scratch worktree of /repo HEAD: git apply; go build ./... && go test -vet=off -count=1 ./... (pass); demo copied to the root, go test -run TestSeedDemo . (fail); git checkout; demo again (pass)"
    json.dump(meta, open(os.path.join(dst, "meta.json"), "w"), indent=1)
    return res

def detect(sid, props):
    dst = os.path.join(VERIF, "seeded", sid)
    meta = json.load(open(os.path.join(dst, "meta.json")))
    if not props:
        props = [meta.get("property", sid.split("-")[0])]
    rc, out = sh(["git", "-C", "/repo", "status", "--porcelain"])
    assert out.strip() == "", "/repo not clean: " + out
    rc, out = sh(["git", "-C", "/repo", "apply", os.path.join(dst, "patch.diff")])
    assert rc == 0, out
    results = meta.get("detection", {})
    try:
        for p in props:
            t0 = time.time()
            rc, out = sh([os.path.join(VERIF, "check"), p, "--tier", "quick"], cwd=VERIF)
            viol = [l for l in out.split("\n") if l.startswith("VIOLATION") or l.startswith("KNOWN-FINDING")]
            results[p] = {"exit": rc, "lines": viol[:4], "wall_s": round(time.time() - t0, 1)}
            print(sid, p, "exit", rc, viol[:2])
    finally:
        sh(["git", "-C", "/repo", "checkout", "--", "."])
    meta["detection"] = results
    json.dump(meta, open(os.path.join(dst, "meta.json"), "w"), indent=1)

if __name__ == "__main__":
    if sys.argv[1] == "confirm":
        confirm(sys.argv[2], sys.argv[3])
    elif sys.argv[1] == "detect":
        detect(sys.argv[2], sys.argv[3:])
