#!/bin/bash
# usage: lib/harmless.sh <stage-dir> <k> <props...>   — applies a behaviour-preserving rewrite to /repo, runs the checks, undoes it
d=$1; k=$2; shift 2
cd /repo && git apply $d/$k/patch.diff || { echo "APPLY-FAILED $d/$k"; exit 1; }
cd /verif
for p in "$@"; do
  out=$(./check $p 2>&1)
  rc=$?
  echo "$(basename $d)-$k $p exit=$rc $(echo "$out" | grep -E '^VIOLATION' | head -2 | tr '\n' ' ')"
done
git -C /repo checkout -- .
