#!/usr/bin/env python3
"""Regenerates the table of DESIGN.md section 8b from seeded/*/meta.json (summary, needs, recorded detection)."""
import os, json, re, glob
VERIF = os.path.dirname(os.path.dirname(os.path.abspath(__file__)))
rows = []
for d in sorted(glob.glob(os.path.join(VERIF, "seeded", "C??-*"))):
    sid = os.path.basename(d)
    m = json.load(open(os.path.join(d, "meta.json")))
    det = m.get("detection", {})
    cells = []
    for p, r in sorted(det.items()):
        lines = r.get("lines", [])
        viol = [l for l in lines if l.startswith("VIOLATION")]
        kind = "not detected"
        if r.get("exit") == 1 and viol:
            kind = "no-failing-input-found (obligation)" if viol[0].rstrip().endswith("no-failing-input-found") else "failing input reported"
        elif r.get("exit") == 1:
            kind = "exit 1"
        cells.append("%s: %s" % (p, kind))
    esc = lambda s: re.sub(r"\s+", " ", str(s)).replace("|", "\\|")
    rows.append("| %s | %s | %s | %s |" % (sid, esc(m.get("summary", ""))[:300], esc(m.get("needs", ""))[:220], "; ".join(cells) or "(not run)"))
head = "| seed | change | what it needs to manifest | check (quick tier, as committed) |\n|---|---|---|---|\n"
s = open(os.path.join(VERIF, "DESIGN.md")).read()
a = s.index("| seed | change | what it needs to manifest |")
b = s.index("\n\n", s.index("| C20-", a))
s = s[:a] + head + "\n".join(rows) + s[b:]
open(os.path.join(VERIF, "DESIGN.md"), "w").write(s)
print(len(rows), "rows")
