#!/usr/bin/env python3
"""Writes /verif/MANIFEST.json from lib/propconf.py (claimed checks) and lib/manifest_text.py (texts)."""
import json, os, sys
VERIF = os.path.dirname(os.path.dirname(os.path.abspath(__file__)))
sys.path.insert(0, os.path.join(VERIF, "lib"))
from propconf import PROPS
from manifest_text import TEXT, NOT_APPLICABLE, ENGINES

props = [json.loads(l)["id"] for l in open(os.path.join(VERIF, "properties.jsonl"))]
checks = []
for p in props:
    if p not in PROPS or p not in TEXT:
        continue
    t = TEXT[p]
    checks.append({
        "property_id": p,
        "quick_cmd": "./check %s --tier quick" % p,
        "thorough_cmd": "./check %s --tier thorough" % p,
        "evidence_file": "evidence/%s.json" % p,
        "replay_cmd_template": "./check %s --replay {path}" % p,
        "engine": t["engine"],
        "level_claimed": {"category": "proof", "text": t["text"], "design_ref": t["design_ref"]},
        "level_note": t["note"],
        "technique": t["technique"],
    })
na = [{"property_id": p, "reason": NOT_APPLICABLE.get(p, "check not built yet in this development (work in progress); no claim is made")}
      for p in props if p not in [c["property_id"] for c in checks]]
m = {
    "version": 1,
    "setup_cmd": "./check setup",
    "hooks": {
        "guard": "verif",
        "enable": "go build -tags verif (the harness is built with -tags verif; /repo contains no guarded source: observation needs no hook)",
        "baseline_off_cmd": "cd /repo && go test -vet=off -count=1 ./...",
        "source_commits": [],
        "add_only": True,
    },
    "engines": ENGINES,
    "checks": checks,
    "notes": "Technique: machine-checked proof in Coq 8.16.1 over a hand-written executable Gallina model, tied to /repo by a "
             "correspondence check on every run (see DESIGN.md). Repairs of genuine defects are unguarded 'fix:' commits in /repo, "
             "recorded in known_findings.jsonl.",
    "not_applicable": na,
}
json.dump(m, open(os.path.join(VERIF, "MANIFEST.json"), "w"), indent=1)
print("MANIFEST.json: %d checks, %d not_applicable" % (len(checks), len(na)))
