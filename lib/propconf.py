"""Per-property configuration of the check driver."""

COMMON_TRUSTED = [
    "Coq 8.16.1 kernel + coqc; vm_compute (correspondence runs, generated=modelled obligations, finite sweeps); no native_compute",
    "no Axiom/Parameter/Conjecture/Admitted/admit and no disabled kernel check anywhere (audited by grep on every run)",
    "hand-written Gallina model tied to /repo by the correspondence check (Go harness + Coq runner): harness generators, runners, "
    "property predicates and the Coq-term emitter are trusted",
]

HDR = "From Anytype Require Import Base FloatBits Value RunCommon %s.\nLocal Open Scope Z_scope.\n"

PROPS = {
    "C18": {
        "n": {"quick": 4000, "thorough": 200000},
        "per_shard": 250,
        "run_header": HDR % "RunC18",
        "run_check": "c18_check",
        "run_show": "(fun c => c18_model (fst c))",
        "rule": "numeric lists from 8 generator modes (all-negative, int64-boundary ints, mixed int/float, other kinds interleaved, "
                "small ints, floats incl. signed zeros/subnormals/extremes, all-positive, non-finite); non-trivial = at least 2 elements; "
                "distinct by the list's serialisation",
        "trusted": [
            "oracles: float + * / and float64(int) are Section variables in the theorems (no contract except: float64(int) is a finite pattern, "
            "validated on every int of every case); executed through Coq primitive floats (IEEE binary64) in FloatExec.v",
            "modelled, not verified: Go's float64 comparison as sign-magnitude order on bit patterns (FloatBits.flt)",
        ],
        "assumptions": ["callbacks/aggregates are called on lists not mutated concurrently"],
    },
    "C07": {
        "n": {"quick": 3000, "thorough": 150000},
        "per_shard": 200,
        "run_header": HDR % "RunPure",
        "run_check": "c07_check",
        "run_show": "(fun c => let '(a, b, _, _) := c in c07_model a b)",
        "rule": "pairs (a, b) of container trees where b is a one-place edit of a at a random node (kind of one scalar changed, key renamed, "
                "element/member appended or removed, members permuted, sign of zero, value nudged, elements swapped, identical copy) or an "
                "unrelated tree; both argument orders; a third tree for transitivity; non-trivial = an edit was applied; distinct by canonical form of the pair",
        "trusted": ["modelled, not verified: Go == on float64 as FloatBits.feq; Go map iteration order is irrelevant to the result (theorem C07_spec: "
                    "the result depends only on key sets and values)"],
        "assumptions": ["operands are acyclic value trees with distinct object keys (wfb)"],
    },
    "C14": {
        "n": {"quick": 1500, "thorough": 60000},
        "per_shard": 100,
        "run_header": HDR % "RunPure",
        "run_check": "c14_check",
        "run_show": "(fun c => c14_model (fst c))",
        "rule": "lists and objects with multiplicity 0/1/2/3 of each of the seven kinds in random interleavings; all 45 list views and 16 object views "
                "are called with callbacks from a fixed family (mirrored in Coq) and their results/call logs recorded; object logs compared as multisets; "
                "non-trivial = at least two kinds present and some kind occurs at least twice; distinct by canonical form of the container",
        "trusted": ["callback family (kind-tagging map, truthiness filter, order-sensitive reducers) mirrored by hand in RunPure.v and pure.go"],
        "assumptions": ["callbacks are pure and do not mutate the container being iterated"],
    },
    "C17": {
        "n": {"quick": 3000, "thorough": 150000},
        "per_shard": 250,
        "run_header": HDR % "RunPure",
        "run_check": "c17_check",
        "run_show": "(fun c => let '(l, _, _) := c in c17_model l)",
        "rule": "homogeneous int/string/float lists (duplicates, extremes MinInt/MaxInt/+-Inf/+-0/empty string/non-ASCII, presorted and reverse-sorted), "
                "mixed-kind lists, lists whose first element is of another kind, the empty list; lengths 0..9 of both parities; Sort results compared "
                "pointwise up to the sign of zeros and as bit-exact multisets; non-trivial = length >= 2; distinct by canonical form",
        "trusted": ["modelled, not verified: sort.Ints/Strings/Float64s as insertion sort, justified by the proved uniqueness of sorted permutations "
                    "(C17_unique_*); sort.Float64s on NaN-free input orders by the sign-magnitude key"],
        "assumptions": ["float lists are NaN-free (as the property states)"],
    },
}
