"""Per-property configuration of the check driver."""

COMMON_TRUSTED = [
    "Coq 8.16.1 kernel + coqc; vm_compute (correspondence runs, generated=modelled obligations, finite sweeps); no native_compute",
    "no Axiom/Parameter/Conjecture/Admitted/admit and no disabled kernel check anywhere (audited by grep on every run)",
    "hand-written Gallina model tied to /repo by the correspondence check (Go harness + Coq runner): harness generators, runners, "
    "property predicates and the Coq-term emitter are trusted",
]

HDR = "From Anytype Require Import Base FloatBits Value RunCommon %s.\nLocal Open Scope Z_scope.\n"

PROPS = {
    "C18": {
        "n": {"quick": 4000, "thorough": 200000},
        "per_shard": 250,
        "run_header": HDR % "RunC18",
        "run_check": "c18_check",
        "run_show": "(fun c => c18_model (fst c))",
        "rule": "numeric lists from 8 generator modes (all-negative, int64-boundary ints, mixed int/float, other kinds interleaved, "
                "small ints, floats incl. signed zeros/subnormals/extremes, all-positive, non-finite); non-trivial = at least 2 elements; "
                "distinct by the list's serialisation",
        "trusted": [
            "oracles: float + * / and float64(int) are Section variables in the theorems (no contract except: float64(int) is a finite pattern, "
            "validated on every int of every case); executed through Coq primitive floats (IEEE binary64) in FloatExec.v",
            "modelled, not verified: Go's float64 comparison as sign-magnitude order on bit patterns (FloatBits.flt)",
        ],
        "assumptions": ["callbacks/aggregates are called on lists not mutated concurrently"],
    },
}
