"""Per-property configuration of the check driver."""

COMMON_TRUSTED = [
    "Coq 8.16.1 kernel + coqc; vm_compute (correspondence runs, generated=modelled obligations, finite sweeps); no native_compute",
    "no Axiom/Parameter/Conjecture/Admitted/admit and no disabled kernel check anywhere (audited by grep on every run)",
    "hand-written Gallina model tied to /repo by the correspondence check (Go harness + Coq runner): harness generators, runners, "
    "property predicates and the Coq-term emitter are trusted",
]

HDR = "From Anytype Require Import Base FloatBits Value RunCommon %s.\nLocal Open Scope Z_scope.\n"


HEAP_TRUSTED = [
    "modelled, not verified: Go slices/maps as sequences and association lists (Heap.v); slice aliasing is modelled separately with backing "
    "arrays (Slice.v) and proved to refine the sequence model for every growth policy",
    "canonical hash of the reachable heap (polynomial hash mod 2^61-1 over a DFS token stream) computed independently in Go and in Coq; "
    "a collision could hide a difference (probability ~2^-61 per comparison)",
    "map iteration order is an explicit, checked parameter of Keys/Values/KeyOf (reported by the harness, validated by the model)",
]
def heap_conf(name, nq, nt, rule, extra_trusted=()):
    return {
        "run_header_note": "programs are lists of HeapExt.xop ([Base o] = an operation of Heap.v)",
        "n": {"quick": nq, "thorough": nt},
        "per_shard": 60,
        "run_header": "From Anytype Require Import Base FloatBits Value Heap Slice HeapExt RunCommon RunHeap.\nLocal Open Scope Z_scope.\n",
        "run_check": "heap_check",
        "run_show": "heap_show",
        "mismatch_is_input": True,
        "rule": rule,
        "trusted": HEAP_TRUSTED + list(extra_trusted),
        "assumptions": ["containers are acyclic (the generator never nests a container into something reachable from it)",
                        "single goroutine"],
    }

def heap_slice_conf(name, nq, nt, rule):
    c = heap_conf(name, nq, nt, rule + "; every third case is a slice-level program (list-only operations on up to 6 lists of scalars with growth "
                  "histories) whose visible contents after every step are reproduced by the backing-array model under two growth policies (exact-fit and doubling)")
    c["run_check"] = "heap_or_slice_check"
    c["run_show"] = "heap_or_slice_show"
    return c

JSON_TRUSTED = [
    "oracles: strconv.FormatFloat(x,'e'|'f',-1,64) and strconv.ParseFloat(s,64) are Section variables in the theorems with contract F1 (a finite value's text "
    "parses back to it), F2 (the text has the shape of a JSON number), F3 (true/false are not floats), F5 (the 'e' format contains an 'e' or a '.'; that a float's "
    "text is never an integer literal is DERIVED from F2+F5, FloatText.v); executions use per-case tables produced by Go, and the "
    "contract is re-validated inside Coq on every table entry of every case",
    "modelled, not verified (hand transcriptions, validated differentially on every run): utf8.DecodeRuneInString, utf8.AppendRune, unicode.IsSpace, strconv.Itoa, "
    "strconv.ParseInt(base 0), strconv.ParseBool, strconv.Unquote (double-quote case), json.Indent (spec-level: reference decoder + canonical re-layout)",
    "RFC 8259 is the generative grammar of JsonDoc.v; cross-validated against encoding/json in both directions on every text (json.Valid(s) <-> ref_parse s <> None)",
    "encoding/json (UseNumber) is the independent decoder of the harness predicates",
]
def json_conf(nq, nt, rule, per_shard=40):
    return {
        "n": {"quick": nq, "thorough": nt},
        "per_shard": per_shard,
        "run_header": "From Anytype Require Import Base FloatBits Value Json JsonDoc RunCommon RunJson.\nLocal Open Scope Z_scope.\n",
        "run_check": "json_check",
        "run_show": "json_show",
        "rule": rule,
        "trusted": list(JSON_TRUSTED),
        "assumptions": ["floats finite and strings valid UTF-8 inside the theorems' domain (other inputs are still modelled and compared)"],
    }

# alternative runners: cases tagged chk = "<name>" inside another engine's stream are evaluated with these settings
ALT_CHECKS = {
    "xheap": {
        "per_shard": 25,
        "run_header": "From Anytype Require Import Base FloatBits Value Heap Slice HeapExt RunCommon RunHeap.\nLocal Open Scope Z_scope.\n",
        "run_check": "heap_check",
        "run_show": "heap_show",
    },
}
XHEAP_RULE = ("; plus a stream of heap-level programs (HeapExt.v) in which this property's operations are interleaved with valid-domain "
              "mutations of the same containers through all their aliases, outcome and canonical heap hash compared after every step")
XHEAP_TRUSTED = [
    "heap-level programs (HeapExt.v): callbacks come from a finite family mirrored in the harness (4 predicates, 4 mapping functions, 4 reducers); "
    "String/FormatString/NativeSlice/NativeDict are compared as the data they denote (encoding/json with UseNumber + the number rule on the Go side, "
    "reify + sorted members on the Coq side); float aggregates are executed through Coq primitive floats (FloatExec.v)",
]

def k2_step(prop, tier, seed, work, env, sh):
    """C04, runtime part: a Go stack overflow is fatal to the process, so deep nesting is probed in a sub-process."""
    import os
    h = os.path.join(os.path.dirname(os.path.dirname(os.path.abspath(__file__))), "harness", "harness")
    cases, notes = [], []
    rc, out = sh(["timeout", "120", h, "k2probe", "--n", "100000"], cwd=work, env=env)
    ok = rc == 0 and "survived" in out
    cases.append({"coq": "", "desc": {"probe": "ParseList(strings.Repeat(\"[\", 100000)) in a sub-process", "output": out[-300:]},
                  "pred": ok, "pred_msg": "" if ok else "ParseList did not terminate normally on 100000 nested opening brackets",
                  "nontrivial": True, "key": "k2probe-100000", "tags": ["deep-nesting-probe"]})
    rc, out = sh(["timeout", "120", h, "k2probe", "--n", "3000000"], cwd=work, env=env)
    died = "stack overflow" in out
    ok = rc == 0 and "survived" in out
    c = {"coq": "", "desc": {"probe": "ParseList(strings.Repeat(\"[\", 3000000)) in a sub-process", "output": out[:300]},
         "pred": ok, "pred_msg": "" if ok else "the process died with a Go stack overflow (fatal, not a recoverable panic)" if died else "the probe failed: " + out[-200:],
         "nontrivial": True, "key": "k2probe-3000000", "tags": ["deep-nesting-probe"]}
    if died:
        c["extra"] = {"finding": "K2"}
    cases.append(c)
    notes.append("deep-nesting probe: depth 100000 %s; depth 3000000 %s" % ("ok" if cases[0]["pred"] else "FAILED", "ok" if ok else ("fatal stack overflow" if died else "failed")))
    return {"cases": cases, "notes": notes}

def race_step(prop, tier, seed, work, env, sh):
    """C15, runtime part: the same generator under the Go race detector (a separate -race build of the harness)."""
    import os, json
    hdir = os.path.join(os.path.dirname(os.path.dirname(os.path.abspath(__file__))), "harness")
    binp = os.path.join(work, "harness-race")
    rc, out = sh(["go", "build", "-race", "-tags", "verif", "-o", binp, "."], cwd=hdir, env=env)
    if rc != 0:
        return {"cases": [], "notes": ["race build failed: " + out[-300:]]}
    n = 120 if tier == "quick" else 3000
    outp = os.path.join(work, "race_cases.jsonl")
    rc, out = sh(["timeout", "1500", binp, prop, "--seed", str(seed + 7), "--n", str(n), "--out", outp], cwd=work, env=dict(env, GORACE="halt_on_error=0"))
    cases = []
    if os.path.exists(outp):
        for l in open(outp):
            try:
                c = json.loads(l)
            except Exception:
                continue
            c["coq"] = ""            # the model is run on the non-race stream; here only the predicates and the detector count
            c["tags"] = (c.get("tags") or []) + ["race-detector-run"]
            cases.append(c)
    racy = "DATA RACE" in out
    if racy or rc != 0:
        i = out.find("WARNING: DATA RACE")
        cases.append({"coq": "", "desc": {"race_detector": out[i:i + 2500] if i >= 0 else out[-1500:]}, "pred": False,
                      "pred_msg": "the Go race detector reports a data race inside the library during ForEachAsync/MapAsync or concurrent read-only calls" if racy else "the -race run failed (exit %d)" % rc,
                      "nontrivial": True, "key": "race-report", "tags": ["race-detector-report"]})
    return {"cases": cases, "notes": ["race-detector run: %d cases, data race reported: %s" % (len(cases), racy)]}

PROPS = {
    "C18": {
        "mismatch_is_input": True,
        "n": {"quick": 4000, "thorough": 200000},
        "per_shard": 250,
        "run_header": HDR % "RunC18",
        "run_check": "c18_check",
        "run_show": "(fun c => c18_model (fst c))",
        "rule": "numeric lists from 8 generator modes (all-negative, int64-boundary ints, mixed int/float, other kinds interleaved, "
                "small ints, floats incl. signed zeros/subnormals/extremes, all-positive, non-finite); non-trivial = at least 2 elements; "
                "distinct by the list's serialisation",
        "trusted": [
            "oracles: float + * / and float64(int) are Section variables in the theorems (no contract except: float64(int) is a finite pattern, "
            "validated on every int of every case); executed through Coq primitive floats (IEEE binary64) in FloatExec.v",
            "modelled, not verified: Go's float64 comparison as sign-magnitude order on bit patterns (FloatBits.flt)",
        ],
        "assumptions": ["callbacks/aggregates are called on lists not mutated concurrently"],
    },
    "C07": {
        "mismatch_is_input": True,
        "n": {"quick": 3000, "thorough": 150000},
        "per_shard": 200,
        "run_header": HDR % "RunPure",
        "run_check": "c07_check",
        "run_show": "(fun c => let '(a, b, _, _) := c in c07_model a b)",
        "rule": "pairs (a, b) of container trees where b is a one-place edit of a at a random node (kind of one scalar changed, key renamed, "
                "element/member appended or removed, members permuted, sign of zero, value nudged, elements swapped, identical copy) or an "
                "unrelated tree; both argument orders; a third tree for transitivity; non-trivial = an edit was applied; distinct by canonical form of the pair",
        "trusted": ["modelled, not verified: Go == on float64 as FloatBits.feq; Go map iteration order is irrelevant to the result (theorem C07_spec: "
                    "the result depends only on key sets and values)"],
        "assumptions": ["operands are acyclic value trees with distinct object keys (wfb)"],
    },
    "C14": {
        "mismatch_is_input": True,
        "n": {"quick": 1500, "thorough": 60000},
        "per_shard": 100,
        "run_header": HDR % "RunPure",
        "run_check": "c14_check",
        "run_show": "(fun c => c14_model (fst c))",
        "rule": "lists and objects with multiplicity 0/1/2/3 of each of the seven kinds in random interleavings; all 45 list views and 16 object views "
                "are called with callbacks from a fixed family (mirrored in Coq) and their results/call logs recorded; object logs compared as multisets; "
                "non-trivial = at least two kinds present and some kind occurs at least twice; distinct by canonical form of the container",
        "trusted": ["callback family (kind-tagging map, truthiness filter, order-sensitive reducers) mirrored by hand in RunPure.v and pure.go"],
        "assumptions": ["callbacks are pure and do not mutate the container being iterated"],
    },
    "C17": {
        "mismatch_is_input": True,
        "n": {"quick": 3000, "thorough": 150000},
        "per_shard": 250,
        "run_header": HDR % "RunPure",
        "run_check": "c17_check",
        "run_show": "(fun c => let '(l, _, _) := c in c17_model l)",
        "rule": "homogeneous int/string/float lists (duplicates, extremes MinInt/MaxInt/+-Inf/+-0/empty string/non-ASCII, presorted and reverse-sorted), "
                "mixed-kind lists, lists whose first element is of another kind, the empty list; lengths 0..9 of both parities; Sort results compared "
                "pointwise up to the sign of zeros and as bit-exact multisets; non-trivial = length >= 2; distinct by canonical form",
        "trusted": ["modelled, not verified: sort.Ints/Strings/Float64s as insertion sort, justified by the proved uniqueness of sorted permutations "
                    "(C17_unique_*); sort.Float64s on NaN-free input orders by the sign-magnitude key"],
        "assumptions": ["float lists are NaN-free (as the property states)"],
    },
    "C05": heap_slice_conf("C05", 1200, 60000,
        "programs of 8-35 operations over up to 8 live lists/objects nested acyclically; list-centric op mix (Add bursts, Insert/Replace/Delete/"
        "SubList/Get with boundary arguments -n-1..n+1, Pop, Clear, Reverse, Sort inside C17's domain, Concat, typed getters, Contains/IndexOf, "
        "Slice), growth histories leaving spare capacity; after EVERY step the outcome and the canonical hash of the whole reachable heap are compared; "
        "non-trivial = at least 5 steps and 3 distinct operations; distinct by the full trace"),
    "C06": heap_conf("C06", 1200, 60000,
        "programs of 8-35 operations, object-centric op mix (Set with duplicate keys inside one call / odd count / non-string first key, Unset, Clear, "
        "Merge, Pluck, Get, typed getters, TypeOf, KeyExists, Count, Empty, Keys, Values, Dict, Contains, KeyOf) over keys {'', a, b, c, a.b, #0, .x, "
        "\"q\", e-acute, k}; outcome and canonical heap hash after every step; non-trivial = at least 5 steps and 3 distinct operations"),
    "C08": heap_conf("C08", 1000, 50000,
        "random DAG-shaped heaps (shared sub-containers), Clone of a random container, Equals, then 2-11 mutations (methods and tree-form writes) "
        "at random nodes of either side, checking after each that the other side is unchanged; outcome and canonical heap hash after every step"),
    "C09": heap_slice_conf("C09", 1500, 80000,
        "receiver list with a growth history (Add burst then Pop/Delete: spare capacity 0..many) -> one or two derivations (Concat, SubList, Merge, "
        "Keys, Values) -> 2-9 mutations of any participant (receiver, argument, result, second result); outcome and canonical heap hash after every step"),
    "C10": heap_conf("C10", 800, 40000,
        "random trees (keys incl. a.b, .x, #0, ''), 6-15 (TypeOfTF, GetTF) pairs per program: resolvable paths, one-step corruptions (segment dropped, "
        "sigil swapped, index out of range, key misspelt, trailing/doubled sigil, alternative index spellings 01 0x1 +1 1_ -0 20-digit) and random "
        "strings over {. # a b 0 1 - x}"),
    "C11": heap_conf("C11", 800, 40000,
        "random trees, 6-15 SetTF/UnsetTF per program on well-formed paths (existing / partially existing / new; index < n, = n, > n; intermediates "
        "scalar, nil, other container kind, right kind) with scalar and container values, plus 12% corrupted paths; whole-heap canonical hash after every step"),
    "C01": json_conf(1000, 60000,
        "acyclic container trees (root list or object, depth <= 4, width <= 5) biased to the thin slices: whole-valued floats below 1e6, +-0, subnormals, "
        "1e+-300, 17-digit mantissas, MinInt/MaxInt, strings and keys from code-point classes {C0, DEL, quote, backslash, solidus, C1, U+2028/9, U+FFFD, "
        "surrogate-adjacent, astral, unassigned}, the empty key; every 11th case a single-code-point string as value and key; non-trivial = at least 4 nodes; distinct by canonical form"),
    "C02": json_conf(1000, 60000,
        "trees as in C01 (plus every 11th with non-finite floats: outside the theorem, inside the model); String() is checked by the Coq reference decoder, "
        "against the model's serialisation token by token, and decoded by encoding/json"),
    "C03": json_conf(1500, 80000,
        "grammar-generated valid JSON texts with array/object root: whitespace from {space, tab, LF, CR} in every slot, all 8 short escapes, \\uXXXX in both hex cases incl. controls "
        "and U+FFFD, surrogate pairs, 38 number spellings incl. int64 boundaries and 30-digit ints, duplicate keys, text around the root; parsed tree compared with the model and with encoding/json"),
    "C04": dict(json_conf(2500, 150000,
        "five streams: proper prefixes of serialised documents (last-byte cut and random cuts), 17 kinds of ill-formed UTF-8 inserted between the root brackets, garbage over a "
        "32-symbol alphabet, mutated documents (flip/delete/insert/duplicate), ParseFile on temp files / a missing path / a directory; each input parsed twice; plus a sub-process probe of very deep nesting", per_shard=100), extra_steps=[k2_step]),
    "C16": json_conf(700, 40000,
        "trees as in C02 x indents {one of -1,11,-5,100; 0; one of 1..4; one of 5,7,10}: FormatString bytes are checked to be the canonical re-layout (fix point of relayout and of "
        "indent_text) of exactly the tokens String() writes; panics outside 0..10", per_shard=25),
    "C20": json_conf(1500, 80000,
        "multi-line documents (newlines in every whitespace slot, nested containers, 0-3 lines of text before the root, text after it) with one injected error: invalid literal, "
        "wrong character instead of ':', unquoted key; class, cited line and cited character/token compared with the model", per_shard=100),
    "C12": {
        "generated": True,
        "mismatch_is_input": True,
        "n": {"quick": 4000, "thorough": 200000},
        "per_shard": 300,
        "run_header": "From Anytype Require Import Base FloatBits Value Native RunCommon RunJson RunNative.\nLocal Open Scope Z_scope.\n",
        "run_check": "c12_check",
        "run_show": "(fun c => let '(g, _, _, _) := c in c12_model g)",
        "rule": "Go values of every supported dynamic type (int8..int64, uint8..uint64 at boundaries -128 127 200 255 40000 65535 3e9 2^32-1 2^63-1 2^63 2^64-1 and random, "
                "float32 incl. subnormals/max/+-0/NaN/Inf, all seven slice and seven map flavours, existing Lists/Objects, nested []any / map[string]any to depth 3) and "
                "16 unsupported samples, stored through 13 entry points (NewList, NewListOf, NewListFrom, Add, Insert, Replace, SetTF, NewObject, NewObjectFrom, Set, "
                "Object.SetTF, Map, MapValues); the stored tree (or panic) is compared with the model; distinct by Go value",
        "trusted": ["modelled, not verified: parseVal's type switch (Native.norm), Go's integer conversions int(uintN)/int(intN) and float64(float32) on bit patterns",
                    "the harness's reflect-based classification of Go values into the model's gov constructors"],
        "assumptions": [],
    },
    "C13": {
        "mismatch_is_input": True,
        "n": {"quick": 2000, "thorough": 100000},
        "per_shard": 150,
        "run_header": "From Anytype Require Import Base FloatBits Value Native RunCommon RunJson RunNative.\nLocal Open Scope Z_scope.\n",
        "run_check": "c13_check",
        "run_show": "(fun c => let '(v, _, _) := c in c13_model v)",
        "rule": "container trees of depth <= 5 (all kinds, NaN/Inf included); NativeSlice/NativeDict export and Slice()/Dict() snapshot are compared with the model; the harness "
                "additionally mutates the export, the snapshot, the source Go value and the container and checks that the other side never changes; non-trivial = at least 4 nodes",
        "trusted": ["non-aliasing of exported/imported Go maps and slices with the container's storage rests on Go's type system (different element types) plus the dynamic mutation predicate"],
        "assumptions": [],
    },
    "C15": {
        "generated": True,
        "n": {"quick": 400, "thorough": 20000},
        "per_shard": 40,
        "run_header": "From Anytype Require Import Base FloatBits Value RunCommon Derived Async RunMisc.\nLocal Open Scope Z_scope.\n",
        "run_check": "c15_check",
        "run_show": "(fun c => let '(k, n, _, _, _) := c in c15_model k n)",
        "extra_steps": [race_step],
        "rule": "ForEachAsync / MapAsync of lists and objects with sizes {0,1,2,7,64}, GOMAXPROCS {1,2,4,16}, five callback delay patterns (none, index-dependent sleeps both ways, "
                "Gosched, alternating) so that start/finish orders vary; observed: multiset of (index,value) calls, completion of every callback at return, MapAsync = Map; every fifth case: "
                "2-8 goroutines running 12 read-only operations on one shared container against their sequential results; the same generator is run again under the Go race detector; "
                "the model side executes the skeleton EXTRACTED from the source under a round-robin schedule; non-trivial = n >= 2",
        "trusted": ["the go/ast extractor of the four synchronisation skeletons (harness/astx.go) and the small-step semantics of WaitGroup/Mutex/go statements (Async.v)",
                    "runtime truth not modelled: the Go scheduler and memory model realise the modelled atomic steps; exercised by the race detector and perturbed schedules only"],
        "assumptions": ["callbacks do not mutate the container being iterated"],
    },
    "C19": {
        "generated": True,
        "mismatch_is_input": True,
        "n": {"quick": 400, "thorough": 20000},
        "per_shard": 200,
        "run_header": "From Anytype Require Import Base FloatBits Value RunCommon Derived Async RunMisc.\nLocal Open Scope Z_scope.\n",
        "run_check": "c19_check",
        "run_show": "(fun c => let '(o, name, _) := c in c19_model o name)",
        "rule": "every method of the List and Object interfaces whose result type is the interface itself, enumerated by reflection, called with valid arguments synthesised from its signature "
                "on derived values of one and two embedding levels (the two-level ones registered twice: inner constructor, then outer); observed: whether the registered outer value came back; "
                "plus 14 retrieval paths of a stored derived value; the model side is the return-expression table EXTRACTED from the source",
        "trusted": ["the go/ast extractor of return-expression classes (harness/astx.go); reflection-based argument synthesis"],
        "assumptions": [],
    },
}

# the thorough tier: ten times the quick volume (vm_compute inside Coq costs ~5-20 ms per case; an extracted runner was not needed)
for _p, _c in PROPS.items():
    _c["n"]["thorough"] = _c["n"]["quick"] * 10

# properties whose operations also run inside heap-level programs (harness/heapext.go: xStreams)
for _p in ("C01", "C02", "C07", "C09", "C12", "C13", "C14", "C15", "C16", "C17", "C18"):
    PROPS[_p]["alt_checks"] = ["xheap"]
    PROPS[_p]["rule"] += XHEAP_RULE
    PROPS[_p]["trusted"] = PROPS[_p].get("trusted", []) + HEAP_TRUSTED[1:] + XHEAP_TRUSTED
    PROPS[_p]["mismatch_is_input_for"] = ["xheap"]
