ENGINES = [
    {"name": "pure", "path": "coq/theories (Value, Aggregates, Views, Sorting, Equality) + harness", "serves_properties": ["C07", "C14", "C17", "C18"],
     "kind_free_text": "Coq theorems over pure value trees; correspondence: model evaluated by vm_compute on harness cases"},
]
NOT_APPLICABLE = {}
TEXT = {
    "C18": {
        "engine": "pure",
        "design_ref": "DESIGN.md section 6, C18",
        "technique": "Coq proof (induction over the list) + differential correspondence check (vm_compute with primitive IEEE floats)",
        "text": "Theorems C18_sum/prod/avg/min/max/intsum/intprod/intmin/intmax/empty (properties/C18.v) hold for every list and every float "
                "arithmetic; Min/Max are proved to return a minimum/maximum of the elements as float64 (specification, not 'equals my fold'); "
                "the Int family is proved on arbitrary lists with 64-bit wrap-around. The model's folds are the ones run against the Go code on every check.",
        "note": "float + * / and float64(int) are section variables (oracles) with one contract: float64(int) is finite (validated per case); "
                "Go float comparison modelled as sign-magnitude order on bit patterns; hand model tied by the harness; no axioms.",
    },
}
