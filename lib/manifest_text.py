ENGINES = [
    {"name": "heap", "path": "coq/theories (Heap, Slice, HeapProofs, RunHeap) + harness/heap.go, slice.go", "serves_properties": ["C05", "C06", "C08", "C09", "C10", "C11"],
     "kind_free_text": "Coq theorems over a reference-semantics heap model and a slice/backing-array model; correspondence: random programs, outcome + canonical heap hash after every step"},
    {"name": "pure", "path": "coq/theories (Value, Aggregates, Views, Sorting, Equality) + harness", "serves_properties": ["C07", "C14", "C17", "C18"],
     "kind_free_text": "Coq theorems over pure value trees; correspondence: model evaluated by vm_compute on harness cases"},
]
NOT_APPLICABLE = {}
TEXT = {
    "C18": {
        "engine": "pure",
        "design_ref": "DESIGN.md section 6, C18",
        "technique": "Coq proof (induction over the list) + differential correspondence check (vm_compute with primitive IEEE floats)",
        "text": "Theorems C18_sum/prod/avg/min/max/intsum/intprod/intmin/intmax/empty (properties/C18.v) hold for every list and every float "
                "arithmetic; Min/Max are proved to return a minimum/maximum of the elements as float64 (specification, not 'equals my fold'); "
                "the Int family is proved on arbitrary lists with 64-bit wrap-around. The model's folds are the ones run against the Go code on every check.",
        "note": "float + * / and float64(int) are section variables (oracles) with one contract: float64(int) is finite (validated per case); "
                "Go float comparison modelled as sign-magnitude order on bit patterns; hand model tied by the harness; no axioms.",
    },
    "C07": {
        "engine": "pure",
        "design_ref": "DESIGN.md section 6, C07",
        "technique": "Coq proof (nested induction over value trees, pigeonhole on key sets) + differential correspondence check",
        "text": "veq transcribes the three isEqual methods; C07_spec proves veq a b = true <-> seqP a b (independently defined typed structural equality) "
                "for all well-formed trees, C07_refl/sym/trans the equivalence on NaN-free data, C07_kinds/length/missing_key the 'false, not panic' clauses. "
                "The same veq is run against Equals on one-place-edit pairs in both argument orders on every check.",
        "note": "Go float == modelled as feq on bit patterns; trees have distinct keys (Go maps guarantee it); hand model tied by the harness; no axioms.",
    },
    "C14": {
        "engine": "pure",
        "design_ref": "DESIGN.md section 6, C14",
        "technique": "Coq proof (fold/filter/map fusion lemmas, for arbitrary callbacks and enumeration orders) + differential correspondence check",
        "text": "Every typed/untyped view is transcribed as the loop it is (a fold that logs callback arguments) and proved equal to filter/map/fold over "
                "exactly the elements of the kind, in index order (C14_*); object variants for every enumeration order (Permutation). All 61 views of the API "
                "are run against the model on every check with a mirrored callback family.",
        "note": "callbacks are arbitrary Gallina functions in the theorems, a finite mirrored family in executions; identity of handed-out containers is a harness predicate; no axioms.",
    },
    "C17": {
        "engine": "pure",
        "design_ref": "DESIGN.md section 6, C17",
        "technique": "Coq proof (Permutation/StronglySorted for the sort, nth_error invariant for the swap loop) + differential correspondence check",
        "text": "C17_sort: on non-empty homogeneous string/int/float lists Sort returns a sorted permutation (bit-exact elements), idempotent; C17_sort_reject: "
                "other first element panics; C17_unique_*: sorted permutations are unique, so any correct sort.* agrees with the model; C17_reverse: the "
                "n/2-1..0 swap loop equals rev (position i -> n-1-i, involutive). In-place/identity clauses are checked on the implementation.",
        "note": "sort.* modelled by insertion sort (justified by the uniqueness theorems); list identity (same list returned, mutated in place) is a harness predicate here and a theorem of the heap model in C05; no axioms.",
    },
    "C05": {
        "engine": "heap",
        "design_ref": "DESIGN.md section 6, C05",
        "technique": "Coq proof (ownership invariant + forward simulation from the slice/backing-array model to the sequence model, induction over programs, arbitrary growth policy) + differential correspondence check on random programs",
        "text": "C05_program_refines: for every growth policy and every program of list operations over any number of lists, the transcription of the library's "
                "append/copy/make usage produces the outcomes and visible contents of the plain sequence model, with ownership of backing arrays as invariant; "
                "panic domains proved as iff-statements (C05_*_domain), operations characterised position by position (C05_*_spec), panicking single-index "
                "operations proved to leave the heap unchanged (C05_panic_frame). Reference semantics is the heap model's construction (ids), exercised by programs with aliases.",
        "note": "Go slices/append modelled by hand (Slice.v) and executed against the code under two growth policies; the heap model (Heap.v) is tied by programs "
                "with a canonical hash of the reachable heap after every step; Sort restricted to C17's domain and Delete to distinct valid indices in generated programs, as the property states; no axioms.",
    },
    "C09": {
        "engine": "heap",
        "design_ref": "DESIGN.md section 6, C09",
        "technique": "Coq proof (heap-prefix frame lemma for every deriving operation; ownership invariant of backing arrays under every program) + differential correspondence check with growth histories",
        "text": "C09_no_write: every deriving/observing operation leaves the old heap as a prefix of the new one (no pre-existing cell is written); "
                "C09_results_own_storage: with real slice semantics and any growth policy, results of SubList/Concat own their arrays and every later mutation "
                "changes only its own list (simulation to the sequence model); C09_prefix_concat_refuted: the pre-fix Concat is expressible in the model and breaks both. "
                "Programs 'grow -> derive -> mutate any participant' are run against the code on every check.",
        "note": "holds after the repair of D5 (fix: commit 7931f9b); Filter*/Map*/Reduce*/typed slices are covered as pure functions in C14; no axioms.",
    },
    "C06": {
        "engine": "heap",
        "design_ref": "DESIGN.md section 6, C06",
        "technique": "Coq proof (finite-map characterisation of every object operation through lookup; Permutation for enumeration orders) + differential correspondence check on random programs",
        "text": "Every object operation of the model is characterised as a finite-map operation over arbitrary byte-string keys: Set (last pair wins, "
                "others untouched, odd count / non-string key panic), Unset (missing key = no-op), Merge (argument wins), Pluck (exactly the requested keys, "
                "panics iff one is missing), Keys/Values/Dict/Count (same field set for every enumeration order), getters' panic domains as iff-statements. "
                "The same operations are run against the implementation inside random programs with the canonical heap hash compared after every step.",
        "note": "Go maps modelled as association lists with distinct keys (invariant proved); map iteration order is an explicit checked parameter; "
                "KeyOf is a relation (some key holding the value); no axioms.",
    },
    "C08": {
        "engine": "heap",
        "design_ref": "DESIGN.md section 6, C08",
        "technique": "Coq proof (induction on the copy's fuel with allocation/closedness invariants; reachability frame lemma) + differential correspondence check (clone, then mutate either side)",
        "text": "clone_val transcribes the two copy() methods. Proved for every heap and every acyclic value: Clone succeeds (C08_total), the clone reads as "
                "exactly the same tree (C08_equal, hence Equals), the old heap is a prefix of the new one (C08_frame), EVERY container reachable from the clone "
                "was allocated by the call (C08_fresh), none is reachable from both (C08_disjoint), a value's tree depends only on cells reachable from it "
                "(C08_reify_frame), and therefore any write to a cell of one side leaves the other unchanged (C08_independent). The check clones random DAG heaps and mutates "
                "nodes of either side by methods and tree-form writes, comparing the whole reachable heap after every step.",
        "note": "history clause = C08_independent applied per mutation (every mutator of the model is a write to cells reachable from its receiver; for tree-form writes "
                "this is exercised dynamically, the per-mutator footprint lemma is proved for Clone and the deriving ops only); no axioms.",
    },
    "C10": {
        "engine": "heap",
        "design_ref": "DESIGN.md section 6, C10",
        "technique": "Coq proof (induction over paths and over the string surgery of GetTF/TypeOfTF; arbitrary strings for the agreement theorem) + differential correspondence check with path corruptions",
        "text": "C10_get: GetTF on every well-formed path (rendered with canonical decimal indices) equals step-by-step navigation, panics included; C10_typeof: TypeOfTF is "
                "that value's kind or Undefined; C10_agree: for EVERY string and heap TypeOfTF = kind of GetTF's result, Undefined exactly when GetTF panics, and TypeOfTF is total. "
                "Known finding K1 (keys starting with a sigil are reachable through an empty segment) is demonstrated as an Example and re-demonstrated on the code by every run.",
        "note": "pint0 (strconv.ParseInt base 0) transcribed and proved to invert Itoa (GoIntProofs); other index spellings ParseInt accepts are specified by the model and exercised by the check; no axioms.",
    },
    "C11": {
        "engine": "heap",
        "design_ref": "DESIGN.md section 6, C11",
        "technique": "Coq proof (step/leaf lemmas for the branch-by-branch transcription of SetTF/UnsetTF, induction over paths, frame by visited-container sets) + differential correspondence check on random trees and paths",
        "text": "C11_set_read_back: on acyclic heaps SetTF on every well-formed path succeeds whatever is in the way and GetTF then yields the stored value; "
                "C11_set_never_panics; C11_set_frame: only visited containers are rewritten, containers keep their kind (right-kind intermediates reused by reference); "
                "C11_unset: exactly the addressed field/element is removed; C11_unset_frame/absent_key/index_out_of_range: nothing else changes, unresolved paths change nothing.",
        "note": "holds after the repair of D6 (fix: commit b2b927c); partial in one named respect: the model pads with any index, the process cannot (generated indices stay below n+5); no axioms.",
    },
}
