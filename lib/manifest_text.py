ENGINES = [
    {"name": "generated", "path": "harness/astx.go -> coq/Generated/*.v + coq/theories (Derived, Async, AsyncProofs, RunMisc) + harness/derived.go", "serves_properties": ["C15", "C19", "C12"],
     "kind_free_text": "translator (go/ast) regenerating model fragments from the source on every run: async skeletons, return-expression classes, parseVal's case table; theorems and obligations over the generated fragments; dynamic runs incl. the race detector"},
    {"name": "json", "path": "coq/theories (Utf8, GoInt, GoUnquote, Json, JsonDoc + *Proofs, RoundTrip, RunJson) + harness/json.go", "serves_properties": ["C01", "C02", "C03", "C04", "C16", "C20"],
     "kind_free_text": "Coq theorems over transcriptions of the serializer and of the two parser state machines, an RFC 8259 grammar with layout and a reference decoder; correspondence: the same texts through the implementation and the model with float-conversion tables from Go"},
    {"name": "native", "path": "coq/theories (Native, NativeProofs, RunNative) + harness/native.go", "serves_properties": ["C12", "C13"],
     "kind_free_text": "Coq theorems over a model of parseVal's type switch and of the native export; correspondence: Go values of every flavour through every entry point"},
    {"name": "heap", "path": "coq/theories (Heap, Slice, HeapProofs, RunHeap) + harness/heap.go, slice.go", "serves_properties": ["C05", "C06", "C08", "C09", "C10", "C11"],
     "kind_free_text": "Coq theorems over a reference-semantics heap model and a slice/backing-array model; correspondence: random programs, outcome + canonical heap hash after every step"},
    {"name": "pure", "path": "coq/theories (Value, Aggregates, Views, Sorting, Equality) + harness", "serves_properties": ["C07", "C14", "C17", "C18"],
     "kind_free_text": "Coq theorems over pure value trees; correspondence: model evaluated by vm_compute on harness cases"},
]
NOT_APPLICABLE = {}
TEXT = {
    "C18": {
        "engine": "pure",
        "design_ref": "DESIGN.md section 6, C18",
        "technique": "Coq proof (induction over the list) + differential correspondence check (vm_compute with primitive IEEE floats)",
        "text": "Theorems C18_sum/prod/avg/min/max/intsum/intprod/intmin/intmax/empty (properties/C18.v) hold for every list and every float "
                "arithmetic; Min/Max are proved to return a minimum/maximum of the elements as float64 (specification, not 'equals my fold'); "
                "the Int family is proved on arbitrary lists with 64-bit wrap-around. The model's folds are the ones run against the Go code on every check.",
        "note": "float + * / and float64(int) are section variables (oracles) with one contract: float64(int) is finite (validated per case); "
                "Go float comparison modelled as sign-magnitude order on bit patterns; hand model tied by the harness; no axioms.",
    },
    "C07": {
        "engine": "pure",
        "design_ref": "DESIGN.md section 6, C07",
        "technique": "Coq proof (nested induction over value trees, pigeonhole on key sets) + differential correspondence check",
        "text": "veq transcribes the three isEqual methods; C07_spec proves veq a b = true <-> seqP a b (independently defined typed structural equality) "
                "for all well-formed trees, C07_refl/sym/trans the equivalence on NaN-free data, C07_kinds/length/missing_key the 'false, not panic' clauses. "
                "The same veq is run against Equals on one-place-edit pairs in both argument orders on every check.",
        "note": "Go float == modelled as feq on bit patterns; trees have distinct keys (Go maps guarantee it); hand model tied by the harness; no axioms.",
    },
    "C14": {
        "engine": "pure",
        "design_ref": "DESIGN.md section 6, C14",
        "technique": "Coq proof (fold/filter/map fusion lemmas, for arbitrary callbacks and enumeration orders) + differential correspondence check",
        "text": "Every typed/untyped view is transcribed as the loop it is (a fold that logs callback arguments) and proved equal to filter/map/fold over "
                "exactly the elements of the kind, in index order (C14_*); object variants for every enumeration order (Permutation). All 61 views of the API "
                "are run against the model on every check with a mirrored callback family.",
        "note": "callbacks are arbitrary Gallina functions in the theorems, a finite mirrored family in executions; identity of handed-out containers is a harness predicate; no axioms.",
    },
    "C17": {
        "engine": "pure",
        "design_ref": "DESIGN.md section 6, C17",
        "technique": "Coq proof (Permutation/StronglySorted for the sort, nth_error invariant for the swap loop) + differential correspondence check",
        "text": "C17_sort: on non-empty homogeneous string/int/float lists Sort returns a sorted permutation (bit-exact elements), idempotent; C17_sort_reject: "
                "other first element panics; C17_unique_*: sorted permutations are unique, so any correct sort.* agrees with the model; C17_reverse: the "
                "n/2-1..0 swap loop equals rev (position i -> n-1-i, involutive). In-place/identity clauses are checked on the implementation.",
        "note": "sort.* modelled by insertion sort (justified by the uniqueness theorems); list identity (same list returned, mutated in place) is a harness predicate here and a theorem of the heap model in C05; no axioms.",
    },
    "C05": {
        "engine": "heap",
        "design_ref": "DESIGN.md section 6, C05",
        "technique": "Coq proof (ownership invariant + forward simulation from the slice/backing-array model to the sequence model, induction over programs, arbitrary growth policy) + differential correspondence check on random programs",
        "text": "C05_program_refines: for every growth policy and every program of list operations over any number of lists, the transcription of the library's "
                "append/copy/make usage produces the outcomes and visible contents of the plain sequence model, with ownership of backing arrays as invariant; "
                "panic domains proved as iff-statements (C05_*_domain), operations characterised position by position (C05_*_spec), panicking single-index "
                "operations proved to leave the heap unchanged (C05_panic_frame); C05_mutator_footprint/independent: every mutator writes at most the receiver's own cell, so values that do not reach the receiver read the same afterwards (aliases see the change). Reference semantics is the heap model's construction (ids), exercised by programs with aliases.",
        "note": "Go slices/append modelled by hand (Slice.v) and executed against the code under two growth policies; the heap model (Heap.v) is tied by programs "
                "with a canonical hash of the reachable heap after every step; Sort restricted to C17's domain and Delete to distinct valid indices in generated programs, as the property states; no axioms.",
    },
    "C09": {
        "engine": "heap",
        "design_ref": "DESIGN.md section 6, C09",
        "technique": "Coq proof (heap-prefix frame lemma for every deriving operation; ownership invariant of backing arrays under every program) + differential correspondence check with growth histories",
        "text": "C09_no_write: every deriving/observing operation leaves the old heap as a prefix of the new one (no pre-existing cell is written); "
                "C09_results_own_storage: with real slice semantics and any growth policy, results of SubList/Concat own their arrays and every later mutation "
                "changes only its own list (simulation to the sequence model); C09_created_is_fresh / C09_mutating_the_result_leaves_old_cells / C09_mutating_old_containers_leaves_the_result: in the heap model every container handed out by SubList/Concat/Merge/Pluck/Keys/Values/Clone is a new cell, any later sequence of mutators on it leaves all earlier cells unchanged and vice versa; C09_prefix_concat_refuted: the pre-fix Concat is expressible in the model and breaks both. "
                "Programs 'grow -> derive -> mutate any participant' are run against the code on every check.",
        "note": "holds after the repair of D5 (fix: commit 7931f9b); Filter*/Map*/Reduce*/typed slices are covered as pure functions in C14; no axioms.",
    },
    "C06": {
        "engine": "heap",
        "design_ref": "DESIGN.md section 6, C06",
        "technique": "Coq proof (finite-map characterisation of every object operation through lookup; Permutation for enumeration orders) + differential correspondence check on random programs",
        "text": "Every object operation of the model is characterised as a finite-map operation over arbitrary byte-string keys: Set (last pair wins, "
                "others untouched, odd count / non-string key panic), Unset (missing key = no-op), Merge (argument wins), Pluck (exactly the requested keys, "
                "panics iff one is missing), Keys/Values/Dict/Count (same field set for every enumeration order), getters' panic domains as iff-statements; C06_mutator_footprint/independent: Set/Unset/Clear write only the receiver's cell. "
                "The same operations are run against the implementation inside random programs with the canonical heap hash compared after every step.",
        "note": "Go maps modelled as association lists with distinct keys (invariant proved); map iteration order is an explicit checked parameter; "
                "KeyOf is a relation (some key holding the value); no axioms.",
    },
    "C08": {
        "engine": "heap",
        "design_ref": "DESIGN.md section 6, C08",
        "technique": "Coq proof (induction on the copy's fuel with allocation/closedness invariants; reachability frame lemma) + differential correspondence check (clone, then mutate either side)",
        "text": "clone_val transcribes the two copy() methods. Proved for every heap and every acyclic value: Clone succeeds (C08_total), the clone reads as "
                "exactly the same tree (C08_equal, hence Equals), the old heap is a prefix of the new one (C08_frame), EVERY container reachable from the clone "
                "was allocated by the call (C08_fresh), none is reachable from both (C08_disjoint), a value's tree depends only on cells reachable from it "
                "(C08_reify_frame), and therefore any write to a cell of one side leaves the other unchanged (C08_independent); C08_history: after Clone, EVERY program of mutators (methods and tree-form writes, any paths) whose receivers lie on one side leaves the other side's tree unchanged, step after step. The check clones random DAG heaps and mutates "
                "nodes of either side by methods and tree-form writes, comparing the whole reachable heap after every step.",
        "note": "history clause proved for whole programs (CloneHistory.v) from the per-mutator footprint theorems (Footprint.v: method mutators write one cell, SetTF/UnsetTF on arbitrary strings write only cells reachable from the receiver and append); no axioms.",
    },
    "C10": {
        "engine": "heap",
        "design_ref": "DESIGN.md section 6, C10",
        "technique": "Coq proof (induction over paths and over the string surgery of GetTF/TypeOfTF; arbitrary strings for the agreement theorem) + differential correspondence check with path corruptions",
        "text": "C10_get: GetTF on every well-formed path (rendered with canonical decimal indices) equals step-by-step navigation, panics included; C10_typeof: TypeOfTF is "
                "that value's kind or Undefined; C10_empty_segment / C10_wrong_sigil_list / C10_wrong_sigil_object / C10_non_numeric_index: each class of malformed path makes GetTF panic and TypeOfTF report Undefined; C10_agree: for EVERY string and heap TypeOfTF = kind of GetTF's result, Undefined exactly when GetTF panics, and TypeOfTF is total. "
                "Known finding K1 (keys starting with a sigil are reachable through an empty segment) is demonstrated as an Example and re-demonstrated on the code by every run.",
        "note": "pint0 (strconv.ParseInt base 0) transcribed and proved to invert Itoa (GoIntProofs); other index spellings ParseInt accepts are specified by the model and exercised by the check; no axioms.",
    },
    "C11": {
        "engine": "heap",
        "design_ref": "DESIGN.md section 6, C11",
        "technique": "Coq proof (step/leaf lemmas for the branch-by-branch transcription of SetTF/UnsetTF, induction over paths, frame by visited-container sets) + differential correspondence check on random trees and paths",
        "text": "C11_set_read_back: on acyclic heaps SetTF on every well-formed path succeeds whatever is in the way and GetTF then yields the stored value; "
                "C11_set_never_panics; C11_set_frame: only visited containers are rewritten, containers keep their kind (right-kind intermediates reused by reference); "
                "C11_unset: exactly the addressed field/element is removed; C11_unset_frame/absent_key/index_out_of_range: nothing else changes, unresolved paths change nothing; C11_set_footprint/unset_footprint/tf_mutator_independent: for ARBITRARY path strings (malformed, panicking half-way) only cells reachable from the receiver are rewritten, so unrelated trees read the same.",
        "note": "holds after the repair of D6 (fix: commit b2b927c); partial in one named respect: the model pads with any index, the process cannot (generated indices stay below n+5); no axioms.",
    },
    "C01": {
        "engine": "json", "design_ref": "DESIGN.md section 6, C01",
        "technique": "Coq proof (serializer = render of the canonical derivation; parser correct on every rendered derivation; composition) + differential correspondence check",
        "text": "C01_list/C01_object: for every value tree in the domain (every int64, finite float64, valid-UTF-8 string or key, any nesting) parsing the model's String() returns the ORIGINAL tree "
                "(Leibniz equality: kinds, bit patterns of floats incl. whole values and -0, byte-identical strings), consumes the whole text; C01_equals_*, C01_reparse_* as corollaries. "
                "The same serializer/parser models are run against the code on every check, the round trip itself is evaluated on the implementation.",
        "note": "holds after the repairs D1 (338010f) and D2 (c69150a); " + 'float-text oracles with contract F1/F2/F3/F4 (premises of the theorems; validated inside Coq on every float and token of every run); strconv/utf8/unicode functions transcribed by hand and validated differentially; no axioms.',
    },
    "C02": {
        "engine": "json", "design_ref": "DESIGN.md section 6, C02",
        "technique": "Coq proof (String() is the rendering of a well-formed derivation of an RFC 8259 grammar whose meaning is the value; a reference decoder proved sound and complete for that grammar) + encoding/json as independent decoder in the harness",
        "text": "C02_valid_and_same_data: ser v = render d with doc_ok d and denote d = v; C02_reference_decoder: the independent recursive-descent decoder returns exactly that derivation; "
                "C02_decoder_decides_grammar/complete/sound: the decoder decides the grammar, so validity is not an artefact. On every run String() of random trees is decoded by encoding/json, by the Coq "
                "reference decoder, and compared token by token with the model.",
        "note": "holds after the repair D3 (45716dd); " + 'float-text oracles with contract F1/F2/F3/F4 (premises of the theorems; validated inside Coq on every float and token of every run); strconv/utf8/unicode functions transcribed by hand and validated differentially; no axioms.',
    },
    "C03": {
        "engine": "json", "design_ref": "DESIGN.md section 6, C03",
        "technique": "Coq proof (induction over derivations of the JSON grammar with layout; run lemmas per lexical phase of the two state machines; strconv.Unquote and the escape pre-pass proved correct on every string item) + differential check against encoding/json",
        "text": "C03_list/C03_object: for EVERY well-formed derivation with array/object root — all whitespace placements, all escape spellings incl. the escaped solidus and surrogate pairs, all number spellings "
                "incl. out-of-range integers — the parser model returns exactly the document's meaning under the number rule and stops after the root's closing bracket. Lone surrogate escapes have no meaning and are excluded "
                "through denote; nesting depth is unbounded in the theorem (the process stack is not: known finding K2 under C04).",
        "note": "holds after the repairs D2 (c69150a) and D4 (3cb6490); only F3 (true/false are not floats) is assumed of ParseFloat; " + 'float-text oracles with contract F1/F2/F3/F4 (premises of the theorems; validated inside Coq on every float and token of every run); strconv/utf8/unicode functions transcribed by hand and validated differentially; no axioms.',
    },
    "C04": {
        "engine": "json", "design_ref": "DESIGN.md section 6, C04",
        "technique": "Coq proof (fuel sufficiency = totality; consumed-input invariant giving UTF-8 validity; extension lemma + round trip giving rejection of every proper prefix) + differential check on prefixes, ill-formed UTF-8, garbage, mutations, files; sub-process probe for the stack",
        "text": "C04_total_*: no input makes either machine diverge (result is a container xor an error by construction of the result type, deterministic as a function); C04_utf8_*/C04_illformed_rejected: an accepted document is "
                "well-formed UTF-8 between its root brackets; C04_prefix_*: every proper prefix of every String() is rejected; C04_file: ParseFile = ParseObject on the bytes. "
                "PARTIAL in one named respect: that the Go process survives deep nesting is runtime truth — known finding K2 (stack overflow at 3,000,000 levels) is re-demonstrated in a sub-process on every run.",
        "note": "os.ReadFile modelled as an optional byte string; " + 'float-text oracles with contract F1/F2/F3/F4 (premises of the theorems; validated inside Coq on every float and token of every run); strconv/utf8/unicode functions transcribed by hand and validated differentially; no axioms.',
    },
    "C16": {
        "engine": "json", "design_ref": "DESIGN.md section 6, C16",
        "technique": "Coq proof (json.Indent modelled at specification level as reference-decode + canonical re-layout; layout lemmas; composition with C02) + differential check of the exact bytes",
        "text": "C16_canonical/nonempty/valid/same_data/idempotent: for every value in the domain and every n, FormatString(n) = the canonical layout of the tokens String() writes, is valid JSON denoting the same data, and re-indenting reproduces it; "
                "C16_*_lines: one element per line, n spaces per level, empty containers on one line. C16_range / C16_in_range: format_string (FormatModel.v) panics exactly when n is outside 0..10 and otherwise is the canonical layout; panic and byte-exact output are compared with the code on every run.",
        "note": "json.Indent is modelled (spec level), not transcribed — in the trusted base; holds after D3 (45716dd); " + 'float-text oracles with contract F1/F2/F3/F4 (premises of the theorems; validated inside Coq on every float and token of every run); strconv/utf8/unicode functions transcribed by hand and validated differentially; no axioms.',
    },
    "C20": {
        "engine": "json", "design_ref": "DESIGN.md section 6, C20",
        "technique": "Coq proof (line-counter invariant threaded through both state machines and their mutual recursion, for every input and every error) + differential check of class, cited line and cited character",
        "text": "C20_line_*: for EVERY rejected input whose error cites a line, the number is 1 + the newlines before the offending character counted from the start of the whole input; C20_machines: at any nesting depth the offending character "
                "is the unexpected character itself (never a blank/newline) or the delimiter , ] } ending an invalid literal; C20_counter_threaded: an accepted nested container advances the shared counter by exactly the newlines it consumed.",
        "note": 'float-text oracles with contract F1/F2/F3/F4 (premises of the theorems; validated inside Coq on every float and token of every run); strconv/utf8/unicode functions transcribed by hand and validated differentially; no axioms.',
    },
    "C12": {
        "engine": "native", "design_ref": "DESIGN.md section 6, C12",
        "technique": "Coq proof (case analysis of the type-switch model, induction over nested []any/map[string]any, exact float32->float64 conversion over dyadic rationals) + differential check through 13 entry points",
        "text": "C12_kind (one of seven kinds per Go type), C12_int_value / C12_uint_beyond_maxint_wraps, C12_float32_exact (subnormals included), C12_slice_any / C12_map_any (recursive normalisation), "
                "C12_reject* (any other type panics, also nested), C12_new_list_from, C12_typed_getters. Every entry point is checked on the code to store what NewList stores.",
        "note": "parseVal's switch is transcribed by hand (Native.norm) and compared on every run; the reflect-based classification of Go values in the harness is trusted; no axioms.",
    },
    "C13": {
        "engine": "native", "design_ref": "DESIGN.md section 6, C13",
        "technique": "Coq proof (induction over value trees: export is plain data, export/import are mutually inverse on canonical trees, snapshots are one level) + dynamic mutation predicate for non-aliasing",
        "text": "C13_native_is_plain, C13_export_faithful, C13_roundtrip, C13_export_canonical, C13_slice_snapshot / C13_dict_snapshot / C13_dict_keys. "
                "PARTIAL in one named respect: that a Go map/slice handed out or taken in shares no storage with the container is a fact of Go's type system plus a harness predicate "
                "(export, snapshot, source value and container are each mutated on every case), not a theorem.",
        "note": "exports/imports are values in the model; no axioms.",
    },
    "C19": {
        "engine": "generated", "design_ref": "DESIGN.md section 6, C19",
        "technique": "translator (go/ast) + Coq obligations over the regenerated return-expression table + reflective differential check on derived types of one and two embedding levels",
        "text": "The return expressions of every List/Object method are extracted from the source on every run; C19_*_methods_fluent: each method the property names returns the registered value on every "
                "return path (directly or through a chain of such methods), with a small semantics proved once (C19_fluent_returns_registered); C19_*_interface_classified: every interface method returning "
                "the interface is classified, so additions are noticed. The reflective harness calls every such method on derived values (two-level ones registered twice) and checks 14 retrieval paths of a stored derived value. "
                "Said plainly: Coq adds bookkeeping rigour here, the weight is in the extractor and the reflective sweep.",
        "note": "the extractor (harness/astx.go) and reflection-based argument synthesis are trusted; Init itself (registration) is only exercised dynamically; no axioms.",
    },
    "C15": {
        "engine": "generated", "design_ref": "DESIGN.md section 6, C15",
        "technique": "translator (go/ast) of the four synchronisation skeletons + Coq proof (invariants over a small-step semantics, for every size and EVERY schedule) + dynamic runs with perturbed schedules and the Go race detector",
        "text": "The skeleton of each async method is extracted from the source on every run and must equal the modelled one (C15_*_skeleton). For every n and every schedule: a returned ForEachAsync ran the callback "
                "exactly once per element with the matching pair and after every callback had returned (C15_foreach); MapAsync additionally stores f(i,x_i) in slot i = what Map stores (C15_map); mutual exclusion (C15_mutex); "
                "no deadlock (C15_*_progress); readers write nothing (C15_readers_write_nothing); dropping Wait, Done-before-call and captured loop variables are refuted by concrete schedules. "
                "PARTIAL in one named respect: the theorems cover all interleavings of the modelled atomic steps; that Go's scheduler and memory model realise those steps is runtime truth, exercised by delayed callbacks, "
                "GOMAXPROCS 1..16, concurrent readers and a second run of everything under the race detector.",
        "note": "reader part holds after the repair of D5 (7931f9b); extractor and WaitGroup/Mutex semantics are trusted; no axioms.",
    },
}

# ---- session 3: the whole API as operations of heap-level programs (HeapExt.v) ----
for _e in ENGINES:
    if _e["name"] == "heap":
        _e["path"] = "coq/theories (Heap, Slice, HeapExt, HeapProofs, HeapExtProofs, RunHeap) + harness/heap.go, heapext.go, slice.go"
        _e["serves_properties"] = ["C05", "C06", "C08", "C09", "C10", "C11", "C01", "C02", "C07", "C12", "C13", "C14", "C15", "C16", "C17", "C18"]
        _e["kind_free_text"] += ("; HeapExt.v puts the rest of the public API on the same heap (views with callbacks, typed slices, All*, aggregates, String/FormatString/Native* "
                                 "as the data they denote, NewListFrom/NewObjectFrom, async variants), so that every method can be interleaved with mutations through aliases")
_XH = (" A second stream of heap-level programs (HeapExt.v) interleaves this property's operations with valid-domain mutations of the same containers "
       "through all their aliases and compares outcome and canonical heap hash with the model after every step (repeated calls, stale caches, "
       "hidden state and shared storage show up there).")
for _p in ("C02", "C07", "C12", "C13", "C14", "C15", "C16", "C17", "C18"):
    TEXT[_p]["text"] += _XH
TEXT["C01"]["text"] += (_XH + " In that stream Parse(x.String()) is a step whose result stays live: in the model it is the deep copy the round-trip theorem says it is (Clone), "
                        "so a stale text, a shared parse result or a lost element shows as a different heap.")
TEXT["C09"]["text"] += (" C09_no_write_any_operation / C09_any_created_container_is_fresh / C09_mutating_any_result_leaves_old_cells / "
                        "C09_mutating_old_containers_leaves_any_result extend the heap-level theorems to EVERY deriving operation the property names "
                        "(Filter and typed variants, Map*/MapAsync of lists and objects, typed slices, Reduce*, String, FormatString, All*, aggregates, Native*, NewListFrom/NewObjectFrom), "
                        "as operations of extended programs (HeapExt.v); C09_extended_programs_conservative: Heap.v's operations behave identically inside extended programs." + _XH)
TEXT["C14"]["text"] += (" C14_heap_*: the typed slices / call logs / All* of a list living in the heap are the pure views applied to its element sequence; Filter hands out exactly the "
                        "selected elements in order, Map calls the function once per selected element.")
for _p in ("C05", "C06"):
    TEXT[_p]["text"] += (" %s_new_from_*: NewListFrom/NewObjectFrom on nested []any/map[string]any sources only append cells, the result reads back as the value the source denotes, "
                         "leaves that are live containers are stored by reference; such constructors occur in the programs run against the code." % _p)

TEXT["C08"]["text"] += (" C08_every_reachable_state_is_well_formed / C08_every_reachable_state_is_acyclic: the hypotheses of these theorems (well-formed heap, acyclic "
                        "containers) hold in EVERY state reachable by ANY extended program that obeys two decidable syntactic/step conditions (literal operands are scalars; "
                        "no step stores a container into something reachable from it), which the runner evaluates on every step of every program it executes (run_okb); "
                        "C08_reachable_clone_shares_nothing / _history_independent instantiate the Clone theorems there.")
TEXT["C05"]["text"] += (" Rejected insertions (a value of an unsupported Go type), native slices as values and views whose callback panics are steps of the programs too; "
                        "they exposed D7 (Insert left a duplicated element behind when the value was rejected), repaired by fix: e647c0d.")
TEXT["C12"]["text"] += " Rejected insertions are steps of the heap-level programs: nothing may change when parseVal panics (D7, repaired by fix: e647c0d)."
for _p in ("C01", "C02", "C04", "C16"):
    TEXT[_p]["note"] += " Float-text contract: F1, F2, F3, F5 (F4 'not an integer literal' is derived: FloatText.ser_float_not_int)."
TEXT["C14"]["text"] += (" C14_heap_object_map_keys/_identity/_distinct_keys: the Map variants of objects store the result for every selected field - and only for those - under the "
                        "same key; C14_heap_list_map_pairs: Map with a pair-building callback allocates exactly one two-element cell per selected element holding its tag and the "
                        "element (exact equation for heap and result); C14_heap_foreach_log: every element once, in order, with its index.")
for _p in ("C05", "C06"):
    TEXT[_p]["text"] += (" %s_typed_programs_never_ill_typed: a program that passes the decidable step-wise type check and the storing discipline never takes the model's "
                         "'ill-typed' escape (OBad), so every outcome the runner compares is a real prediction." % _p)
TEXT["C17"]["text"] += (" C17_heap_reverse_in_place / C17_heap_sort_in_place: on the heap, Reverse and Sort write exactly the receiver's own cell - the same cell "
                        "afterwards holds the reversed / sorted sequence (every alias sees it, the identity is unchanged), every other cell and register is as before, "
                        "nothing is allocated, a panicking Sort changes nothing.")
TEXT["C01"]["text"] += (" C01_heap_parse_back_list/_object: for a container living in a heap whose tree is in the domain, the text of String() parses to exactly the "
                        "tree that the model's Clone step rebuilds in cells allocated by that step.")
TEXT["C07"]["text"] += (" C07_heap_equals_is_an_observer / C07_heap_equals_answer: on the heap the Equals step leaves the whole state exactly as it was, never panics, "
                        "and answers veq of the two trees the operands denote (a function of the data, not of identity, history or earlier calls).")
